#!/usr/bin/env python3
"""Add a 'fixed' entry to known_findings.json for every `fix:` commit of /repo that has none yet.
Fixed entries suppress nothing (vmon/findings.py only matches status == 'known')."""
import json, subprocess
PROPS = {  # subject substring -> properties
 "read_csv expressions": ["C15"], "blockwise fusion must not traverse": ["C08", "C19"], "isin(list)": ["C08"], "squash stacked filters": ["C06", "C03"],
 "quantile divisions": ["C06"], "repartition(npartitions=n)": ["C06"], "broadcast join on columns": ["C06"], "groupby.rolling": ["C02"],
 "Series.reset_index": ["C01", "C03"], "groupby mean/var/std": ["C02"], "groupby.agg(dict)": ["C08", "C15", "C02"], "groupby[[cols]].mean": ["C02"],
 "Fused._execute_task": ["C05", "C09", "C17"], "from_delayed must honour": ["C17"], "visit shared sub-expressions": ["C19"], "bind its inner dependency": ["C19", "C14"],
 "callable": ["C11", "C01"], "BroadcastJoin must key": ["C11"], "tune rewrites": ["C11"], "groupby cumulative results": ["C07", "C02"], "shuffle must only drop the index": ["C07"],
 "blockwise rolling aggregation": ["C07", "C17"], "ffill/bfill": ["C16"], "lowered set_index must carry": ["C16", "C15"], "unnamed index": ["C18"], "ranges overlap": ["C18", "C06"],
 "order files by name": ["C18"], "leftsemi join": ["C10", "C02"], "broadcast side chosen": ["C10"], "column-keyed elementwise": ["C01", "C04"], "AsType projection": ["C01", "C04"],
 "NFirst/NLast only when": ["C01", "C06"], "single-partition operands": ["C06", "C01"], "rebuild subclasses": ["C01", "C04"], "drop frames that still contribute": ["C01", "C04"],
 "rolling reduction must keep": ["C01", "C04", "C07"], "narrow the column selection": ["C01", "C04"], "squeeze the carried last row": ["C07", "C02", "C01"], "Blockwise contract": ["C14", "C11", "C01"],
 "index name differs": ["C01", "C02", "C07"], "partition count of their computed divisions": ["C06", "C01"], "DropnaFrame": ["C01", "C04"], "drop and append operands": ["C01", "C04"],
 "nlargest/nsmallest": ["C01", "C04"], "FusedIO's last division": ["C06", "C18"], "FromArray": ["C11"], "broadcasted operand": ["C01", "C11"], "npartitions operand": ["C11", "C01"],
 "right column twice": ["C01", "C04"], "frame's column order": ["C01", "C03", "C04", "C19"], "not only the former index": ["C03", "C01"], "OR-factoring": ["C03", "C01"], "staged task shuffle": ["C12", "C11"],
}
p = "/verif/known_findings.json"
d = json.load(open(p))
have = {e.get("commit") for e in d["findings"]}
log = subprocess.run(["git", "-C", "/repo", "log", "--format=%h\t%s"], capture_output=True, text=True).stdout.splitlines()
n = 0
for line in reversed(log):
    sha, subj = line.split("\t", 1)
    if not subj.startswith("fix:") or subj in have:
        continue
    props = next((v for k, v in PROPS.items() if k in subj), ["C01"])
    d["findings"].append({"key": "fixed-" + sha, "status": "fixed", "properties": props, "commit": subj,
                          "mechanism": f"fixed: property={props[0]} {sha} {subj[5:]}", "match": {"never_matches": True}})
    n += 1
json.dump(d, open(p, "w"), indent=1)
print("added", n, "fixed entries; total", len(d["findings"]))
