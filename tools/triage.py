#!/usr/bin/env python3
"""List replay files of a check grouped by coarse mechanism: tools/triage.py C01 [-v]"""
import sys, json, glob, collections
cid = sys.argv[1]
verbose = "-v" in sys.argv
groups = collections.defaultdict(list)
for f in sorted(glob.glob(f"/verif/replays/{cid}/*.json")):
    d = json.load(open(f))
    v = d["viol"]
    key = (v.get("oracle"), v.get("symptom"), v.get("site"), v.get("stage"), tuple(v.get("rule") or ()))
    groups[key].append((f, v))
for key, items in sorted(groups.items(), key=lambda kv: -len(kv[1])):
    print(len(items), key)
    for f, v in items[: (3 if verbose else 1)]:
        print("   ", f)
        for k in ("detail", "got", "exp", "col", "before", "after"):
            if k in v: print("      ", k, ":", str(v[k])[:300])
        for ln in v.get("src", []): print("       |", ln[:220])
