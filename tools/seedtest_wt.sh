#!/bin/bash
# tools/seedtest_wt.sh <seed-dir> <check> [<check>...] : like seedtest.sh but applies the seeded patch in a scratch worktree of /repo
# (checks run with VERIF_REPO pointing at it), so /repo itself stays untouched while other runs are in progress.
D="$1"; shift
NAME="$(basename "$D")"
WT="/tmp/wt-seedtest-$NAME"
git -C /repo worktree remove --force "$WT" >/dev/null 2>&1
git -C /repo worktree add --detach "$WT" HEAD >/dev/null 2>&1 || { echo "worktree failed"; exit 2; }
if ! git -C "$WT" apply "$D/patch.diff"; then echo "PATCH DOES NOT APPLY: $NAME"; git -C /repo worktree remove --force "$WT"; exit 2; fi
cd "$(dirname "$0")/.."
for c in "$@"; do
  VERIF_REPO="$WT" VERIF_NO_EVIDENCE=1 ./check $c --tier ${TIER:-quick} --seed ${SEED:-0} 2>&1 | grep -E "^RESULT|^VIOLATION|^INCONCLUSIVE" | cut -c1-220 | sed "s/^/[$NAME] /"
done
git -C /repo worktree remove --force "$WT"
