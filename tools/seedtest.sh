#!/bin/bash
# tools/seedtest.sh <seeded dir> <check ids...> : apply the seeded change to /repo, run the given checks (quick), undo it.
# Never commits anything in /repo.  Prints one line per check: DETECTED / MISSED.
D="$1"; shift
cd /repo || exit 2
if ! git diff --quiet; then echo "repo working tree not clean"; exit 2; fi
git apply "$D/patch.diff" || { echo "PATCH DOES NOT APPLY: $D"; exit 3; }
trap 'git -C /repo checkout -- . ; git -C /repo status --short | head -3' EXIT
cd /verif
if [ -f "$D/demo.py" ]; then
  (cd /tmp && timeout 300 /venv/bin/python -W ignore "$D/demo.py" > /tmp/seed_demo.out 2>&1); echo "demo exit=$? ($(tail -1 /tmp/seed_demo.out | cut -c1-100))"
fi
for c in "$@"; do
  out=$(./check $c --tier ${TIER:-quick} --seed ${SEED:-0} 2>&1)
  rc=$?
  if [ $rc -eq 1 ]; then echo "$c DETECTED: $(echo "$out" | grep -A1 '^VIOLATION' | grep detail | head -1 | cut -c1-220)";
  elif [ $rc -eq 2 ]; then echo "$c INCONCLUSIVE: $(echo "$out" | grep '^INCONCLUSIVE' | head -2 | cut -c1-200)";
  else echo "$c MISSED ($(echo "$out" | tail -1 | cut -c1-120))"; fi
done
