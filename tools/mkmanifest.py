#!/usr/bin/env python3
"""Regenerate MANIFEST.json from the check modules' own metadata (run with /venv/bin/python)."""
import importlib, json, os, sys
ROOT = os.path.dirname(os.path.dirname(os.path.abspath(__file__)))
sys.path.insert(0, ROOT)
props = [json.loads(l) for l in open(os.path.join(ROOT, "properties.jsonl"))]
NA_REASONS = {}
if os.path.exists(os.path.join(ROOT, "tools", "not_applicable.json")):
    NA_REASONS = json.load(open(os.path.join(ROOT, "tools", "not_applicable.json")))
checks, na = [], []
for p in props:
    cid = p["id"]
    path = os.path.join(ROOT, "vmon", "checks", cid.lower() + ".py")
    if not os.path.exists(path) or cid in NA_REASONS:
        na.append({"property_id": cid, "reason": NA_REASONS.get(cid, "check not built yet in this phase (planned, see DESIGN.md section 4)")})
        continue
    src = open(path).read()
    ns = {}
    # read MANIFEST dict without importing dask
    import ast
    tree = ast.parse(src)
    meta = {}
    for node in tree.body:
        if isinstance(node, ast.Assign) and len(node.targets) == 1 and getattr(node.targets[0], "id", None) in ("MANIFEST", "LEVEL"):
            meta[node.targets[0].id] = ast.literal_eval(node.value)
    m = meta.get("MANIFEST", {})
    checks.append({
        "property_id": cid,
        "quick_cmd": f"./check {cid} --tier quick",
        "thorough_cmd": f"./check {cid} --tier thorough",
        "evidence_file": f"/verif/evidence/{cid}.json",
        "replay_cmd_template": f"./check {cid} --replay {{path}}",
        "engine": "vmon",
        "level_claimed": {"category": meta.get("LEVEL", "exploration"), "text": m.get("text", ""), "design_ref": m.get("design_ref", f"DESIGN.md section 4 / {cid}")},
        "level_note": m.get("note", ""),
        "technique": m.get("technique", "runtime monitoring: oracle over observed executions of the real code"),
    })
man = {
    "version": 1,
    "setup_cmd": "/venv/bin/python -W ignore -c \"import sys; sys.path.insert(0, '.'); import vmon.cli, vmon.worker, vmon.execs, vmon.compare; from vmon import ensure_repo_on_path; ensure_repo_on_path(); print('vmon ok')\"",
    "hooks": {
        "guard": "DASK_EXPR_VERIF",
        "enable": "no in-tree hooks: every monitor is attached from the harness at run time (wrappers on rule methods, Expr.__new__, caches, task calls); dask_expr is an editable install of /repo so checks always run the current working tree",
        "baseline_off_cmd": "cd /repo && /venv/bin/python -m pytest -ra -q -p no:cacheprovider --timeout=900 --continue-on-collection-errors",
        "source_commits": [],
        "add_only": True,
    },
    "engines": [{"name": "vmon", "path": "/verif/vmon", "serves_properties": [c["property_id"] for c in checks],
                 "kind_free_text": "runtime monitoring harness: seeded workload generators, monitors attached to the real dask_expr by reflection, oracles over recorded events, sharded over 16 worker processes"}],
    "checks": checks,
    "not_applicable": na,
    "notes": "Exit codes: 0 held, 1 VIOLATION, 2 INCONCLUSIVE (a deciding monitor was not reached). Known findings: /verif/known_findings.json. VERIF_SEED / VERIF_TIER / VERIF_JOBS are honoured.",
}
json.dump(man, open(os.path.join(ROOT, "MANIFEST.json"), "w"), indent=1)
print("checks:", [c["property_id"] for c in checks], "na:", [n["property_id"] for n in na])
