#!/bin/bash
# tools/runall.sh [tier] [seed] : run every registered check once, print one RESULT line each
TIER="${1:-quick}"; SEED="${2:-0}"
cd "$(dirname "$0")/.."
for c in C01 C02 C03 C04 C05 C06 C07 C08 C09 C10 C11 C12 C13 C14 C15 C16 C17 C18 C19; do
  ./check $c --tier $TIER --seed $SEED 2>&1 | grep -E "^RESULT|^VIOLATION|^INCONCLUSIVE" | cut -c1-250
done
