#!/bin/bash
# Run the repository's own suite (guard off, harness not loaded) and compare with BASELINE.json's stable_pass set.
# usage: tools/baseline.sh [repo_dir]
REPO="${1:-/repo}"
OUT="$(mktemp -d)"
cd "$REPO" && env -u DASK_EXPR_VERIF /venv/bin/python -m pytest -q -p no:cacheprovider --timeout=900 --continue-on-collection-errors -n 16 --junitxml="$OUT/j.xml" > "$OUT/log" 2>&1
tail -1 "$OUT/log"
python3 - "$OUT/j.xml" <<'PY'
import sys, json, xml.etree.ElementTree as ET
b = json.load(open('/root/.vp/BASELINE.json'))
want = set(b['stable_pass'])
got = set()
for tc in ET.parse(sys.argv[1]).getroot().iter('testcase'):
    if not any(ch.tag in ('failure', 'error', 'skipped') for ch in tc):
        got.add(f"{tc.get('classname')}::{tc.get('name')}")
missing = sorted(want - got)
print(f"baseline stable_pass={len(want)} passed_now={len(got)} missing={len(missing)}")
for m in missing[:40]:
    print("  MISSING", m)
sys.exit(1 if missing else 0)
PY
rc=$?
rm -rf "$OUT"
exit $rc
