#!/bin/bash
# tools/confirm_seed.sh <seed dir> : confirm a seeded change in a scratch worktree (applies, suite passes, demo fails with / passes without)
D="$1"; W=/tmp/sw-confirm-$$
git -C /repo worktree add -q --detach $W HEAD || exit 2
trap 'git -C /repo worktree remove --force '$W EXIT
git -C $W apply "$D/patch.diff" || { echo "RESULT $D apply=FAIL"; exit 3; }
B=$(/verif/tools/baseline.sh $W | tail -1)
(cd /tmp && PYTHONPATH=$W timeout 600 /venv/bin/python -W ignore "$D/demo.py" >/tmp/cs_with.out 2>&1); RW=$?
(cd /tmp && timeout 600 /venv/bin/python -W ignore "$D/demo.py" >/tmp/cs_without.out 2>&1); RO=$?
echo "RESULT $(basename $D) baseline=[$B] demo_with_change_exit=$RW demo_on_repo_exit=$RO"
