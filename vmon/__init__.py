"""vmon - runtime monitoring of dask-expr against properties C01..C19.

Everything here runs the *real* dask_expr imported from /repo's working tree
(or from $VERIF_REPO for self-tests against a mutated scratch copy) and only
observes it: wrappers on rule methods, on Expr.__new__, on caches, on task
calls, and oracles over the recorded events.  See /verif/DESIGN.md.
"""
import os
import sys

VERIF_DIR = os.path.dirname(os.path.dirname(os.path.abspath(__file__)))
REPO_DIR = os.environ.get("VERIF_REPO", "/repo")


def ensure_repo_on_path():
    """Import dask_expr from REPO_DIR and assert that is what we got."""
    if REPO_DIR != "/repo" and REPO_DIR not in sys.path:
        sys.path.insert(0, REPO_DIR)
    import dask_expr  # noqa

    f = os.path.realpath(dask_expr.__file__)
    root = os.path.realpath(REPO_DIR)
    if not f.startswith(root + os.sep):
        raise SystemExit(
            f"INCONCLUSIVE reason=dask_expr imported from {f}, expected under {root}"
        )
    return dask_expr
