"""Executors.  All observe dask-expr at the boundary __dask_graph__() / __dask_keys__()."""
import threading
import time

import pandas as pd
from dask.core import _execute_task, flatten, get_dependencies, ishashable, istask
from dask.local import get_sync

from vmon.util import fp

PD = (pd.DataFrame, pd.Series, pd.Index)


def graph_of(expr):
    """(dict graph, flat list of output keys) of an expression, lowered if necessary."""
    e = expr.lower_completely()
    g = e.__dask_graph__()
    keys = list(flatten(e.__dask_keys__()))
    return dict(g), keys, e


def exec_ref(expr):
    """Lower without optimisation (C01's baseline), run every output key synchronously."""
    g, keys, _ = graph_of(expr)
    return list(get_sync(g, keys))


def exec_graph(g, keys):
    return list(get_sync(g, keys))


def concat_parts(parts):
    """Concatenate partitions the way a user sees the computed collection."""
    if len(parts) == 1 and not isinstance(parts[0], PD):
        return parts[0]
    if isinstance(parts[0], pd.Index):
        ne = [p for p in parts if len(p)] or parts[:1]
        out = ne[0]
        for p in ne[1:]:
            out = out.append(p)
        return out
    if all(isinstance(p, PD) for p in parts):
        # what the user sees from compute(): dask's own concatenation drops empty partitions (whose dtypes and
        # index names are stand-ins, not data) unless every partition is empty
        nonempty = [p for p in parts if len(p)]
        sel = nonempty if nonempty else parts[:1]
        if len(sel) == 1:
            return sel[0]
        from dask.dataframe.dispatch import concat as dd_concat

        # what compute() uses (unions the categories of categorical columns); if it raises, so does compute()
        return dd_concat(sel)
    return parts


# ---------------------------------------------------------------------------
# exec_ordered: our own scheduler; the order policy chooses the next ready key.
# Retains every value and brackets every task call with fingerprints (M-task).
# ---------------------------------------------------------------------------


class Mutation(Exception):
    pass


def _embedded_pd(task, out, depth=0):
    """pandas objects embedded literally in a task."""
    if depth > 6:
        return
    if isinstance(task, PD):
        out.append(task)
    elif isinstance(task, (tuple, list)):
        for t in task:
            _embedded_pd(t, out, depth + 1)
    elif isinstance(task, dict):
        for t in task.values():
            _embedded_pd(t, out, depth + 1)


def exec_ordered(g, keys, policy="fifo", rng=None, prefer=None, check_mutation=True):
    """Run graph g completely in a dependency-respecting order chosen by `policy`.

    policy: 'fifo' | 'lifo' | 'random' | 'prefer_first' | 'prefer_last' (with prefer=set of keys
    that are scheduled as early / as late as possible).
    Returns dict(results=[...], order=[keys in execution order], mutations=[...], cache=...)
    """
    deps = {k: get_dependencies(g, k) for k in g}
    dependents = {k: set() for k in g}
    for k, ds in deps.items():
        for d in ds:
            dependents[d].add(k)
    waiting = {k: set(ds) for k, ds in deps.items()}
    ready = sorted([k for k, ds in waiting.items() if not ds], key=repr)
    cache = {}
    produced_fp = {}
    order = []
    mutations = []
    prefer = prefer or set()
    while ready:
        if policy == "fifo":
            i = 0
        elif policy == "lifo":
            i = len(ready) - 1
        elif policy == "random":
            i = rng.randrange(len(ready))
        elif policy == "prefer_first":
            cand = [j for j, k in enumerate(ready) if k in prefer]
            i = cand[0] if cand else rng.randrange(len(ready))
        elif policy == "prefer_last":
            cand = [j for j, k in enumerate(ready) if k not in prefer]
            i = rng.choice(cand) if cand else 0
        else:
            raise ValueError(policy)
        key = ready.pop(i)
        task = g[key]
        if check_mutation:
            emb = []
            _embedded_pd(task, emb)
            before = [(d, produced_fp[d]) for d in deps[key]]  # fingerprint taken when the value was produced
            before_emb = [fp(x) for x in emb]
            before_task = fp(task)  # the task definition itself (embedded dicts such as Fused sub-graphs, kwargs, literals)
        val = _execute_task(task, cache)
        cache[key] = val
        order.append(key)
        if check_mutation:
            for d, f0 in before:
                if fp(cache[d]) != f0:
                    mutations.append({"kind": "dependency-mutated", "task": _kname(key), "dep": _kname(d)})
            for x, f0 in zip(emb, before_emb):
                if fp(x) != f0:
                    mutations.append({"kind": "embedded-literal-mutated", "task": _kname(key)})
            if fp(task) != before_task and not any(m.get("task") == _kname(key) for m in mutations):
                mutations.append({"kind": "task-definition-mutated", "task": _kname(key)})
            produced_fp[key] = fp(val)
        for dep in sorted(dependents[key], key=repr):
            waiting[dep].discard(key)
            if not waiting[dep]:
                ready.append(dep)
    if len(order) != len(g):
        raise RuntimeError(f"graph not fully executable: ran {len(order)} of {len(g)} tasks (cycle?)")
    if check_mutation:
        for k, f0 in produced_fp.items():
            if fp(cache[k]) != f0:
                mutations.append({"kind": "retained-value-changed-later", "key": _kname(k)})
    return {"results": [cache[k] for k in keys], "order": order, "mutations": mutations, "cache": cache}


def _kname(k):
    if isinstance(k, tuple) and k and isinstance(k[0], str):
        return k[0].rsplit("-", 1)[0] + str(tuple(k[1:]))
    return str(k)[:60]


def shared_keys(g):
    """Keys with >= 2 distinct consumers -> {key: [consumers]}"""
    cons = {}
    for k in g:
        for d in get_dependencies(g, k):
            cons.setdefault(d, []).append(k)
    return {k: v for k, v in cons.items() if len(v) >= 2}


# ---------------------------------------------------------------------------
# exec_threads: dask's threaded scheduler, all keys requested (nothing released), start/finish
# order recorded through a Callback, optional delay injection between tasks.
# ---------------------------------------------------------------------------


def exec_threads(g, keys, num_workers, perturb_rng=None):
    from dask.callbacks import Callback
    from dask.threaded import get as tget

    lock = threading.Lock()
    events = []

    class Rec(Callback):
        def _pretask(self, key, dsk, state):
            with lock:
                events.append(("s", key))

        def _posttask(self, key, result, dsk, state, worker_id):
            with lock:
                events.append(("f", key))

    if perturb_rng is not None:
        delays = {}
        g2 = {}
        for k, t in g.items():
            if istask(t):
                delays[k] = perturb_rng.choice([0, 0, 0, 1e-5, 1e-4, 5e-4])
                g2[k] = (_delayed_call, delays[k], t[0]) + tuple(t[1:])
            else:
                g2[k] = t
        g = g2
    allkeys = list(g.keys())
    with Rec():
        vals = tget(g, allkeys, num_workers=num_workers)
    cache = dict(zip(allkeys, vals))
    return {"results": [cache[k] for k in keys], "events": events, "cache": cache}


def _delayed_call(delay, func, *args):
    if delay:
        time.sleep(delay)
    else:
        time.sleep(0)
    return func(*args)
