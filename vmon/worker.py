"""Worker process: runs its shard of a check's cases, one JSON record per case."""
import argparse
import importlib
import json
import os
import signal
import sys
import time
import traceback
import warnings

warnings.filterwarnings("ignore")


class CaseTimeout(BaseException):
    pass


def _alarm(signum, frame):
    raise CaseTimeout()


def main():
    ap = argparse.ArgumentParser()
    ap.add_argument("--check", required=True)
    ap.add_argument("--tier", default="quick")
    ap.add_argument("--seed", type=int, default=0)
    ap.add_argument("--shard", type=int, default=0)
    ap.add_argument("--nshards", type=int, default=1)
    ap.add_argument("--out", required=True)
    ap.add_argument("--budget", type=float, default=60)
    ap.add_argument("--replay", default=None)
    a = ap.parse_args()

    from vmon import ensure_repo_on_path

    ensure_repo_on_path()
    import dask

    dask.config.set(scheduler="sync")
    mod = importlib.import_module(f"vmon.checks.{a.check.lower()}")
    from vmon.util import jsonable

    t0 = time.time()
    c0 = time.process_time()
    signal.signal(signal.SIGALRM, _alarm)
    case_timeout = int(mod.CONFIG[a.tier].get("case_timeout_s", 60))
    out = open(a.out, "w")
    if hasattr(mod, "setup_worker"):
        mod.setup_worker(a.tier, a.seed)

    def emit(rec):
        out.write(json.dumps(jsonable(rec), sort_keys=True) + "\n")
        out.flush()

    if a.replay:
        spec = json.load(open(a.replay))["case"]
        it = [(0, spec)]
    else:
        it = ((i, c) for i, c in enumerate(mod.cases(a.tier, a.seed)) if i % a.nshards == a.shard)
    skipped = 0
    ran = 0
    for i, case in it:
        # the budget is counted in this worker's CPU time, so the set of cases explored does not depend on how loaded the
        # machine is (a wall-clock budget made reach floors fail when several checks ran side by side); wall time is only a backstop
        if not a.replay and (time.process_time() - c0 > a.budget or time.time() - t0 > 6 * a.budget + 120):
            skipped += 1
            continue
        signal.alarm(case_timeout)
        try:
            rec = mod.run_case(case)
        except CaseTimeout:
            rec = {"status": "timeout", "case": case}
        except Exception as e:
            rec = {"status": "error", "error": f"{type(e).__name__}: {e}\n" + traceback.format_exc()[-1200:], "case": case}
        finally:
            signal.alarm(0)
        rec.setdefault("i", i)
        if rec.get("status") == "violation":
            rec.setdefault("case", case)
        ran += 1
        emit(rec)
    meta = {"type": "meta", "counters": {"cases_skipped_time_budget": skipped, "worker_wall_s": int(time.time() - t0)}}
    if hasattr(mod, "teardown_worker"):
        try:
            extra = mod.teardown_worker()
            if extra:
                meta["counters"].update(extra)
        except Exception:
            pass
    emit(meta)
    out.close()


if __name__ == "__main__":
    main()
    sys.stdout.flush()
    os._exit(0)
