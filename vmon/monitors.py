"""Monitors attached to the real dask_expr from the harness (no repository edit).

M-rule  : every class's own _simplify_down/_simplify_up/_tune_down/_tune_up/_lower is wrapped; firings are
          recorded, and in validate mode before/after are executed and compared (post-condition of the rule).
M-steps : counters on simplify_once / lower_once / rewrite / Fused creations with a step budget.
M-new   : Expr.__new__ dedupe hits whose operands differ structurally from the instance they alias.
M-cache : hit / miss / insert / evict events of the planner caches.
M-graph : audit of a materialised graph (closed, acyclic, unambiguous, no planner objects, serialisable).
M-plan  : declared-vs-computed audit of a collection (npartitions, divisions, schema).
All monitor state is behind one lock; monitors are disabled while a monitor evaluates expressions itself.
"""
import collections
import functools
import importlib
import pkgutil
import threading

import numpy as np
import pandas as pd

LOCK = threading.RLock()
_TLS = threading.local()

HOOKS = ["_simplify_down", "_simplify_up", "_tune_down", "_tune_up", "_lower"]


def import_all():
    import dask_expr

    for m in pkgutil.walk_packages(dask_expr.__path__, "dask_expr."):
        if ".tests" in m.name or m.name.endswith(("hdf", "orc", "sql", "json", "bag", "records", "_version")):
            continue
        try:
            importlib.import_module(m.name)
        except Exception:
            pass


def all_expr_classes():
    from dask_expr._core import Expr

    out, st = {Expr}, [Expr]
    while st:
        c = st.pop()
        for s in c.__subclasses__():
            if s not in out:
                out.add(s)
                st.append(s)
    return out


class Guard:
    """Re-entrancy guard: monitors do nothing while one of them evaluates expressions."""

    def __enter__(self):
        _TLS.depth = getattr(_TLS, "depth", 0) + 1

    def __exit__(self, *a):
        _TLS.depth -= 1


def guarded():
    return getattr(_TLS, "depth", 0) > 0


# ---------------------------------------------------------------------------------------------
# M-rule
# ---------------------------------------------------------------------------------------------


class RuleMonitor:
    def __init__(self):
        self.events = collections.Counter()
        self.installed = False
        self.validate = False
        self.flags = {"order": True, "index": True}
        self.violations = []
        self.validated = 0
        self.undecided = 0
        self.max_validate = 10**9
        self.n_wrapped = 0
        self._active = set()
        self.on_fire = None

    def install(self):
        if self.installed:
            return self
        import_all()
        for cls in all_expr_classes():
            for h in HOOKS:
                if h in cls.__dict__:
                    self._wrap(cls, h)
                    self.n_wrapped += 1
        self.installed = True
        return self

    def reset(self):
        with LOCK:
            self.events = collections.Counter()
            self.violations = []
            self.validated = 0
            self.undecided = 0

    def _wrap(self, cls, hook):
        f = cls.__dict__[hook]
        mon = self

        @functools.wraps(f)
        def w(self_, *a, **k):
            if guarded():
                return f(self_, *a, **k)
            act = (hook, id(self_), id(a[0]) if a else 0)
            nested = act in mon._active
            if not nested:
                mon._active.add(act)
            try:
                out = f(self_, *a, **k)
            finally:
                if not nested:
                    mon._active.discard(act)
            if nested or out is None:
                return out
            tgt = a[0] if hook.endswith("_up") else self_
            is_expr = hasattr(out, "_name") and hasattr(out, "operands")
            if is_expr and out._name == tgt._name:
                return out
            key = (hook, cls.__name__, type(self_).__name__, type(tgt).__name__ if hook.endswith("_up") else "-", type(out).__name__)
            with LOCK:
                mon.events[key] += 1
            if mon.on_fire is not None:
                mon.on_fire(key, tgt, out)
            if mon.validate and hook != "_lower" and is_expr and mon.validated < mon.max_validate:
                mon._validate(key, tgt, out)
            return out

        w.__vmon_wrapped__ = f
        setattr(cls, hook, w)

    def _validate(self, key, before_e, after_e):
        from vmon.compare import compare
        from vmon.execs import concat_parts, exec_ref

        with Guard():
            try:
                b = concat_parts(exec_ref(before_e))
            except Exception:
                with LOCK:
                    self.undecided += 1
                return
            try:
                a = concat_parts(exec_ref(after_e))
            except Exception as e:
                with LOCK:
                    self.validated += 1
                    self.violations.append({"oracle": "rule_step", "symptom": f"raises:{type(e).__name__}", "rule": list(key), "detail": str(e)[:200],
                                            "before": str(before_e)[:300], "after": str(after_e)[:300]})
                return
            d = compare(a, b, order=self.flags.get("order", True), index=self.flags.get("index", True), dtypes=False)
            with LOCK:
                self.validated += 1
                if d:
                    d.update({"oracle": "rule_step", "rule": list(key), "before": str(before_e)[:300], "after": str(after_e)[:300]})
                    self.violations.append(d)

    def snapshot(self):
        with LOCK:
            return dict(self.events)


RULES = RuleMonitor()


def fmt_rule(key):
    return "/".join(str(x) for x in key)


# ---------------------------------------------------------------------------------------------
# M-steps
# ---------------------------------------------------------------------------------------------


class StepBudgetExceeded(Exception):
    pass


class StepMonitor:
    def __init__(self):
        self.counts = collections.Counter()
        self.installed = False
        self.budget = None

    def install(self):
        if self.installed:
            return self
        from dask_expr import _core, _expr

        mon = self
        for name in ("simplify_once", "lower_once", "rewrite", "simplify", "lower_completely"):
            f = _core.Expr.__dict__[name]

            def mk(f, name):
                @functools.wraps(f)
                def w(self_, *a, **k):
                    if not guarded():
                        mon.counts[name] += 1
                        if mon.budget is not None and name in ("simplify_once", "lower_once") and mon.counts[name] > mon.budget:
                            raise StepBudgetExceeded(f"{name} called {mon.counts[name]} times (budget {mon.budget})")
                    return f(self_, *a, **k)

                return w

            setattr(_core.Expr, name, mk(f, name))
        f2 = _expr._fusion_pass if hasattr(_expr, "_fusion_pass") else None
        self.installed = True
        return self

    def reset(self, budget=None):
        self.counts = collections.Counter()
        self.budget = budget


STEPS = StepMonitor()


# ---------------------------------------------------------------------------------------------
# M-new
# ---------------------------------------------------------------------------------------------


def sig(x, depth=0, memo=None):
    """Structural signature of an operand, independent of dask.base.tokenize."""
    import hashlib
    import types

    from vmon.util import fp

    memo = memo if memo is not None else {}
    if depth > 12:
        return "deep"
    if hasattr(x, "operands") and hasattr(x, "_name") and hasattr(type(x), "_parameters"):
        i = id(x)
        if i in memo:
            return memo[i]
        s = hashlib.blake2b(repr((type(x).__qualname__, [sig(o, depth + 1, memo) for o in x.operands])).encode(), digest_size=10).hexdigest()
        memo[i] = s
        return s
    if hasattr(x, "expr") and hasattr(x.expr, "operands"):
        return sig(x.expr, depth + 1, memo)
    if type(x).__name__ == "_BackendData":
        return "BD:" + fp(x._data)
    if isinstance(x, (pd.DataFrame, pd.Series, pd.Index, np.ndarray)):
        return "PD:" + fp(x)
    if isinstance(x, (types.FunctionType,)):
        clo = [sig(c.cell_contents, depth + 1, memo) for c in (x.__closure__ or ())] if x.__closure__ else []
        return "FN:" + x.__qualname__ + ":" + hashlib.blake2b(x.__code__.co_code + repr(x.__code__.co_consts).encode() + repr((clo, x.__defaults__)).encode(), digest_size=8).hexdigest()
    if isinstance(x, functools.partial):
        return "PA:" + repr((sig(x.func, depth + 1, memo), [sig(a, depth + 1, memo) for a in x.args], [(k, sig(v, depth + 1, memo)) for k, v in sorted(x.keywords.items())]))
    if isinstance(x, dict):
        return "D:" + repr([(sig(k, depth + 1, memo), sig(v, depth + 1, memo)) for k, v in x.items()])
    if isinstance(x, (list, tuple)):
        return type(x).__name__[0] + ":" + repr([sig(v, depth + 1, memo) for v in x])
    if isinstance(x, (set, frozenset)):
        return "S:" + repr(sorted(sig(v, depth + 1, memo) for v in x))
    if isinstance(x, (np.generic,)):
        return f"{type(x).__name__}:{x!r}"
    if x is None or isinstance(x, (bool, int, float, str, bytes, complex)):
        return f"{type(x).__name__}:{x!r}"
    if isinstance(x, (pd.Timestamp, pd.Timedelta, np.dtype, pd.api.extensions.ExtensionDtype, slice, type)) or callable(x):
        if not isinstance(x, type) and type(x).__repr__ is object.__repr__ and hasattr(x, "__dict__"):
            # instance of a callable class without a repr of its own (dask's ParquetFunctionWrapper / CSVFunctionWrapper ...): the default
            # repr is the memory address, so two equal instances (every materialisation of a reader creates its own) must compare by state
            return "OB:" + type(x).__qualname__ + ":" + sig(vars(x), depth + 1, memo)
        return f"{type(x).__name__}:{x!r}"
    try:
        import cloudpickle

        return "CP:" + hashlib.blake2b(cloudpickle.dumps(x), digest_size=8).hexdigest()
    except Exception:
        return "T:" + type(x).__name__


MEMO_PARAMS = {"_dataset_info_cache"}


class NewMonitor:
    def __init__(self):
        self.hits = 0
        self.calls = 0
        self.deep_checked = 0
        self.mismatches = []
        self.installed = False

    def install(self):
        if self.installed:
            return self
        from dask_expr import _core

        orig = _core.Expr.__new__
        unpack = _core._unpack_collections
        mon = self

        def new(cls, *args, **kwargs):
            inst = orig(cls, *args, **kwargs)
            if guarded():
                return inst
            mon.calls += 1
            try:
                ops = list(args)
                for p in cls._parameters[len(ops):]:
                    ops.append(kwargs[p] if p in kwargs else cls._defaults[p])
                ops = [unpack(o) for o in ops]
                # memo operands that the expression fills in place while its name is computed (deliberately not part of the
                # name, which covers a checksum of the files instead): not an operand difference
                for i_, p_ in enumerate(cls._parameters[: len(ops)]):
                    if p_ in MEMO_PARAMS and i_ < len(inst.operands) and ((ops[i_] is None) != (inst.operands[i_] is None)):
                        ops[i_] = inst.operands[i_]
                same = type(inst) is cls and len(ops) == len(inst.operands) and all(a is b for a, b in zip(ops, inst.operands))
                if not same:
                    mon.hits += 1
                    with Guard():
                        memo = {}
                        s_new = (cls.__qualname__, [sig(o, 1, memo) for o in ops])
                        s_old = (type(inst).__qualname__, [sig(o, 1, memo) for o in inst.operands])
                    mon.deep_checked += 1
                    if s_new != s_old:
                        which = [i for i, (a, b) in enumerate(zip(s_new[1], s_old[1])) if a != b]
                        mon.mismatches.append({"name": inst._name, "cls": cls.__qualname__, "existing_cls": type(inst).__qualname__,
                                               "operand_idx": which, "params": [cls._parameters[i] if i < len(cls._parameters) else "?" for i in which],
                                               "new": [repr(ops[i])[:120] for i in which], "old": [repr(inst.operands[i])[:120] for i in which]})
            except Exception as e:  # the monitor must never break the program
                mon.mismatches.append({"monitor_error": f"{type(e).__name__}: {e}"[:200]})
            return inst

        _core.Expr.__new__ = new
        self.installed = True
        return self

    def reset(self):
        self.hits = self.calls = self.deep_checked = 0
        self.mismatches = []


NEWMON = NewMonitor()


# ---------------------------------------------------------------------------------------------
# M-graph
# ---------------------------------------------------------------------------------------------


def audit_graph(expr, check_pickle=True, check_conflicts=True):
    """Audit the materialised graph of a (lowered) expression.  Returns (problems, stats)."""
    import cloudpickle
    import dask
    from dask.core import flatten, get_dependencies, toposort
    from dask_expr import _core
    from dask_expr._collection import FrameBase
    from dask_expr._expr import Fused

    problems = []
    g = dict(expr.__dask_graph__())
    keys = list(flatten(expr.__dask_keys__()))
    names = set()
    for x in expr.walk():
        names.add(x._name)
        if isinstance(x, Fused):
            for y in x.exprs:
                names.add(y._name)
    knames = names | {k[0] if isinstance(k, tuple) else k for k in g}
    stats = {"tasks": len(g), "fused_inner_graphs": 0, "refs_checked": 0}
    # output keys
    exp_keys = [(expr._name, i) for i in range(expr.npartitions)]
    if keys != exp_keys:
        problems.append({"symptom": "output-keys-differ-from-(name,i)", "got": repr(keys)[:200], "exp": repr(exp_keys)[:200]})
    for k in keys:
        if k not in g:
            problems.append({"symptom": "output-key-undefined", "key": repr(k)[:100]})

    import re

    hex32 = re.compile(r"[0-9a-f]{32}")
    tokens = {m.group(0) for n in knames if isinstance(n, str) for m in [hex32.search(n)] if m}

    def looks_like_key(o, scope_names):
        if not (isinstance(o, tuple) and len(o) >= 2 and isinstance(o[0], str) and all(isinstance(v, (int, np.integer, str)) for v in o[1:])):
            return False
        if o[0] in scope_names:
            return True
        # helper keys are named after an expression of the plan ('split-<name>', ...): a tuple whose label carries the token of
        # an expression of this plan is a key reference even if no task of that label exists (that is the defect looked for)
        m = hex32.search(o[0])
        return bool(m and m.group(0) in tokens and len(o) <= 4 and all(isinstance(v, (int, np.integer)) for v in o[1:]))

    def walk_scoped(t, defined=()):
        st = [t]
        first = True
        while st:
            x = st.pop()
            yield x
            if not first and isinstance(x, tuple) and ishashable_(x) and x in defined:
                continue  # a defined key is ONE reference (dask tests a non-task tuple as a whole); its components are not references
            first = False
            if isinstance(x, tuple) and len(x) >= 3 and x[0] is Fused._execute_task:
                st.extend(x[3:])
                continue
            if isinstance(x, (tuple, list, set, frozenset)):
                st.extend(x)
            elif isinstance(x, dict):
                st.extend(x.values())

    def ishashable_(x):
        try:
            hash(x)
            return True
        except TypeError:
            return False

    def check_scope(graph, where):
        scope_names = knames | {k[0] if isinstance(k, tuple) else k for k in graph}
        for k, t in graph.items():
            for o in walk_scoped(t, graph):
                if isinstance(o, (_core.Expr, FrameBase)):
                    problems.append({"symptom": "planner-object-in-task", "key": repr(k)[:100], "obj": type(o).__name__, "where": where})
                if looks_like_key(o, scope_names):
                    stats["refs_checked"] += 1
                    if o not in graph:
                        problems.append({"symptom": "dangling-reference", "key": repr(k)[:100], "ref": repr(o)[:100], "where": where})
                if isinstance(o, tuple) and len(o) >= 3 and o[0] is Fused._execute_task and isinstance(o[1], dict):
                    stats["fused_inner_graphs"] += 1
                    inner = dict(o[1])
                    # the outer task supplies the values of the placeholder names o[3:] ... handled by _execute_task:
                    check_scope_inner(inner, o)

    def check_scope_inner(inner, task):
        # Fused._execute_task(graph, name, *deps): deps are injected under their own keys
        injected = set()
        for d in task[3:]:
            if isinstance(d, tuple) and d and isinstance(d[0], str):
                injected.add(d)
        scope_names = knames | {k[0] if isinstance(k, tuple) else k for k in inner}
        try:
            toposort(inner)
        except Exception as ex:
            problems.append({"symptom": "cycle", "where": "fused-inner", "detail": repr(ex)[:100]})
        for k, t in inner.items():
            for o in walk_scoped(t, set(inner) | injected | set(g)):
                if isinstance(o, (_core.Expr, FrameBase)):
                    problems.append({"symptom": "planner-object-in-task", "key": repr(k)[:100], "obj": type(o).__name__, "where": "fused-inner"})
                if looks_like_key(o, scope_names):
                    stats["refs_checked"] += 1
                    if o not in inner and o not in injected and o not in g:
                        problems.append({"symptom": "dangling-reference", "key": repr(k)[:100], "ref": repr(o)[:100], "where": "fused-inner"})

    check_scope(g, "outer")
    try:
        toposort(g)
    except Exception as ex:
        problems.append({"symptom": "cycle", "where": "outer", "detail": repr(ex)[:100]})
    if check_pickle:
        with dask.config.set({"dask-expr-no-serialize": True}):
            try:
                cloudpickle.dumps(g)
            except Exception as ex:
                problems.append({"symptom": "graph-not-serialisable", "detail": f"{type(ex).__name__}: {ex}"[:200]})
    if check_conflicts:
        from vmon.util import fp

        seen = {}
        for x in expr.walk():
            try:
                layer = x._layer()
            except Exception:
                continue
            for k, t in layer.items():
                if k in seen and seen[k][0] != x._name:
                    if _task_sig(seen[k][1]) != _task_sig(t):
                        # a persisted / imported graph (FromGraph) holds the VALUE of a key whose producing task is still
                        # present elsewhere in the plan: the same key, the same value, no ambiguity
                        from dask.core import istask

                        a_lit, b_lit = not istask(seen[k][1]), not istask(t)
                        if a_lit != b_lit and isinstance(seen[k][1] if a_lit else t, (pd.DataFrame, pd.Series, pd.Index)):
                            stats["materialised_value_aliases"] = stats.get("materialised_value_aliases", 0) + 1
                        else:
                            problems.append({"symptom": "key-defined-twice-differently", "key": repr(k)[:100], "exprs": [seen[k][0], x._name]})
                seen[k] = (x._name, t)
    return problems, stats


_UUID_KEY = None


def _mask_uuid(t, depth=0):
    """DiskShuffle draws a fresh uuid for its private zpartd-/barrier-/shuffle-partition- keys on every materialisation."""
    global _UUID_KEY
    import re

    if _UUID_KEY is None:
        _UUID_KEY = re.compile(r"^(zpartd|barrier|shuffle-partition)-[0-9a-f]{32}$")
    if depth > 8:
        return t
    if isinstance(t, str):
        return _UUID_KEY.sub(r"\1-<uuid>", t)
    if isinstance(t, tuple):
        return tuple(_mask_uuid(x, depth + 1) for x in t)
    if isinstance(t, list):
        return [_mask_uuid(x, depth + 1) for x in t]
    return t


def _task_sig(t):
    return sig(_mask_uuid(t))


# ---------------------------------------------------------------------------------------------
# M-plan
# ---------------------------------------------------------------------------------------------


def audit_plan(e, parts=None, schema=True, structure=True, ref=None):
    """Declared-vs-computed audit of expression `e` (a collection a user can hold).
    Returns (list of problems, stats).  `parts` = computed partitions (computed here if None)."""
    from vmon.compare import dkind
    from vmon.execs import exec_ref

    problems = []
    stats = collections.Counter()
    decl_np = e.npartitions
    divs = tuple(e.divisions)
    meta = e._meta
    if parts is None:
        parts = exec_ref(e)
    if structure:
        stats["structure_audits"] += 1
        if len(parts) != decl_np:
            problems.append({"oracle": "plan_structure", "symptom": "npartitions", "got": len(parts), "exp": decl_np})
        if len(divs) != decl_np + 1:
            problems.append({"oracle": "plan_structure", "symptom": "divisions-length", "got": len(divs), "exp": decl_np + 1})
        elif divs[0] is not None and len(parts) == decl_np:
            try:
                if any(divs[i] > divs[i + 1] for i in range(len(divs) - 1)):
                    problems.append({"oracle": "plan_structure", "symptom": "divisions-not-sorted", "got": repr(divs)[:200]})
            except TypeError:
                stats["division_compare_typeerror"] += 1
            for i, p in enumerate(parts):
                if not isinstance(p, (pd.DataFrame, pd.Series, pd.Index)) or not len(p):
                    continue
                idx = p if isinstance(p, pd.Index) else p.index
                last = i == decl_np - 1
                try:
                    lo, hi = idx.min(), idx.max()
                    ok = lo >= divs[i] and (hi <= divs[i + 1] if last else hi < divs[i + 1])
                except Exception:
                    stats["division_compare_typeerror"] += 1
                    continue
                stats["division_partitions_checked"] += 1
                if not ok:
                    problems.append({"oracle": "plan_structure", "symptom": "index-outside-division", "part": i, "range": [repr(lo), repr(hi)],
                                     "div": [repr(divs[i]), repr(divs[i + 1])], "divisions": repr(divs)[:200]})
                    break
    if schema:
        stats["schema_audits"] += 1
        # (i) every individual partition carries the declared container type, labels and names
        for i, p in enumerate(parts):
            if isinstance(meta, (pd.DataFrame, pd.Series, pd.Index)):
                if type(p) is not type(meta) and not (isinstance(meta, pd.Index) and isinstance(p, pd.Index)):
                    problems.append({"oracle": "plan_schema", "symptom": "container-kind", "got": type(p).__name__, "exp": type(meta).__name__, "part": i})
                    break
                if isinstance(meta, pd.DataFrame):
                    if list(p.columns) != list(meta.columns):
                        problems.append({"oracle": "plan_schema", "symptom": "column-labels", "got": list(map(str, p.columns)), "exp": list(map(str, meta.columns)), "part": i, "part_len": len(p)})
                        break
                elif isinstance(meta, pd.Series):
                    if not _name_eq(meta.name, p.name):
                        problems.append({"oracle": "plan_schema", "symptom": "name", "got": repr(p.name), "exp": repr(meta.name), "part": i, "part_len": len(p)})
                        break
                idx = p if isinstance(p, pd.Index) else p.index
                midx = meta if isinstance(meta, pd.Index) else meta.index
                if list(idx.names) != list(midx.names) and not all(_name_eq(a, b) for a, b in zip(idx.names, midx.names)):
                    problems.append({"oracle": "plan_schema", "symptom": "index-name", "got": repr(list(idx.names)), "exp": repr(list(midx.names)), "part": i, "part_len": len(p)})
                    break
            else:
                if isinstance(p, (pd.DataFrame, pd.Series, pd.Index)):
                    problems.append({"oracle": "plan_schema", "symptom": "container-kind", "got": type(p).__name__, "exp": "scalar:" + type(meta).__name__, "part": i})
                    break
                stats["scalar_nodes"] += 1
        # (ii) dtype kinds of the computed result (partitions concatenated as compute() does) equal the declared ones,
        #      up to pandas' own promotion of integer/boolean columns that acquired missing values
        if not problems and isinstance(meta, (pd.DataFrame, pd.Series)) and parts and all(isinstance(p, type(meta)) for p in parts):
            from vmon.execs import concat_parts

            try:
                whole = concat_parts(parts)
            except Exception:
                whole = None
            if whole is not None and len(whole):
                stats["dtype_audits"] += 1
                if isinstance(meta, pd.DataFrame):
                    for j, c in enumerate(meta.columns):
                        a, b = dkind(meta.iloc[:, j].dtype), dkind(whole.iloc[:, j].dtype)
                        if a != b and not _schema_promotion_ok(a, b, whole.iloc[:, j]) and not _ref_kind(ref, j, b):
                            problems.append({"oracle": "plan_schema", "symptom": "dtype-kind", "col": str(c), "got": str(whole.iloc[:, j].dtype), "exp": str(meta.iloc[:, j].dtype),
                                             "has_na": bool(whole.iloc[:, j].isna().any())})
                            break
                else:
                    a, b = dkind(meta.dtype), dkind(whole.dtype)
                    if a != b and not _schema_promotion_ok(a, b, whole) and not _ref_kind(ref, None, b):
                        problems.append({"oracle": "plan_schema", "symptom": "dtype-kind", "got": str(whole.dtype), "exp": str(meta.dtype), "has_na": bool(whole.isna().any())})
                part_index_kinds = {dkind((p if isinstance(p, pd.Index) else p.index).dtype) for p in parts if len(p)}
                if not problems and not isinstance(whole.index, pd.MultiIndex) and not (dkind(meta.index.dtype) == "O" and len(part_index_kinds | {dkind(whole.index.dtype)}) >= 1 and dkind(whole.index.dtype) != "O" and len({dkind((p if isinstance(p, pd.Index) else p.index).dtype) for p in parts}) > 1):
                    a, b = dkind(meta.index.dtype), dkind(whole.index.dtype)
                    if a != b and not _schema_promotion_ok(a, b, whole.index.to_series()) and not (a in ("i", "b") and b in ("f", "O") and _ref_index_kind(ref, b)):
                        problems.append({"oracle": "plan_schema", "symptom": "index-dtype-kind", "got": str(whole.index.dtype), "exp": str(meta.index.dtype)})
    return problems, stats


def _ref_kind(ref, j, kind):
    """pandas' own promotion may be inherited from upstream (missing values that a later step dropped again): accepted when
    pandas, run on the same program, arrives at the computed dtype kind too."""
    from vmon.compare import dkind

    try:
        if ref is None:
            return False
        if j is None:
            return isinstance(ref, pd.Series) and dkind(ref.dtype) == kind
        return isinstance(ref, pd.DataFrame) and dkind(ref.iloc[:, j].dtype) == kind
    except Exception:
        return False


def _ref_index_kind(ref, kind):
    """an integer column promoted upstream (missing values that were dropped again) may since have become the index"""
    from vmon.compare import dkind

    try:
        return isinstance(ref, (pd.DataFrame, pd.Series)) and not isinstance(ref.index, pd.MultiIndex) and dkind(ref.index.dtype) == kind
    except Exception:
        return False


def _name_eq(a, b):
    if a is None and b is None:
        return True
    try:
        if a != a and b != b:
            return True
    except Exception:
        pass
    return a == b and type(a) == type(b) or (a == b)


def _schema_promotion_ok(decl, got, col):
    """pandas' own promotion: int/bool columns that acquired missing values (or empty object partitions)."""
    if len(col) == 0:
        return True  # empty partitions: dtype of an empty slice is not data
    if decl in ("i", "b") and got in ("f", "O") and bool(col.isna().any()):
        return True
    return False


# ---------------------------------------------------------------------------------------------
# M-cache
# ---------------------------------------------------------------------------------------------


class CacheMonitor:
    def __init__(self):
        self.events = collections.Counter()
        self.installed = False

    def install(self):
        if self.installed:
            return self
        from dask_expr import _util

        LRU = _util.LRU
        mon = self
        og, os_ = LRU.__getitem__, LRU.__setitem__

        def getitem(self_, key):
            try:
                v = og(self_, key)
            except KeyError:
                mon.events[(mon._name_of(self_), "miss")] += 1
                raise
            mon.events[(mon._name_of(self_), "hit")] += 1
            return v

        def setitem(self_, key, value):
            n0 = len(self_)
            had = key in self_.data if hasattr(self_, "data") else False
            os_(self_, key, value)
            mon.events[(mon._name_of(self_), "insert")] += 1
            if len(self_) <= n0 and not had:
                mon.events[(mon._name_of(self_), "evict")] += 1

        LRU.__getitem__ = getitem
        LRU.__setitem__ = setitem
        self.installed = True
        return self

    def _name_of(self, lru):
        from dask_expr import _repartition, _shuffle

        if lru is getattr(_shuffle, "divisions_lru", None):
            return "divisions_lru"
        if lru is getattr(_repartition, "mem_usages_lru", None):
            return "mem_usages_lru"
        return "lru"

    def reset(self):
        self.events = collections.Counter()


CACHES = CacheMonitor()
