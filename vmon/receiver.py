"""Fresh-process receiver for C16: loads a pickled collection, observes it, compares with the originating
process's own observations shipped in the same payload, prints one JSON line."""
import json
import pickle
import sys
import warnings

warnings.filterwarnings("ignore")


def main():
    from vmon import ensure_repo_on_path

    ensure_repo_on_path()
    import dask

    from vmon.checks.c14 import _divs, _schema_diff
    from vmon.compare import compare
    from vmon.execs import concat_parts, exec_ref

    payload = pickle.load(open(sys.argv[1], "rb"))
    out = {"ok": True}
    try:
        with dask.config.set({"dataframe.shuffle.method": payload["shuffle"], "scheduler": "sync"}):
            coll = pickle.loads(payload["pickle"])
            obs = payload["origin"]
            e = coll.expr
            if e._name != obs["name"]:
                out = {"ok": False, "symptom": "name-differs", "got": e._name, "exp": obs["name"]}
            elif e.npartitions != obs["npartitions"]:
                out = {"ok": False, "symptom": "npartitions", "got": e.npartitions, "exp": obs["npartitions"]}
            elif repr(_divs(e)) != obs["divisions"]:
                out = {"ok": False, "symptom": "divisions", "got": repr(_divs(e))[:200], "exp": obs["divisions"][:200]}
            else:
                sd = _schema_diff(e._meta, obs["meta"])
                if sd:
                    out = dict(sd, ok=False)
                else:
                    got = concat_parts(exec_ref(e)) if payload.get("lowered_ok", True) else coll.compute()
                    d = compare(got, obs["result"], order=payload["flags"]["order"], index=payload["flags"]["index"], dtypes=True)
                    if d:
                        out = dict(d, ok=False)
                    elif payload.get("form") != "lowered":
                        # (compute() would re-optimize an already lowered plan: not a serialization matter)
                        got2 = coll.compute()
                        d = compare(got2, obs["result"], order=payload["flags"]["order"], index=payload["flags"]["index"], dtypes=True)
                        if d:
                            out = dict(d, ok=False, via="compute")
    except Exception as ex:
        import os
        import traceback

        tb = traceback.extract_tb(ex.__traceback__)
        site = next((f"{os.path.basename(fr.filename)}:{fr.name}" for fr in reversed(tb) if "/dask_expr/" in fr.filename), "?")
        out = {"ok": False, "symptom": f"raises:{type(ex).__name__}", "site": site, "detail": str(ex)[:240]}
    print("RECEIVER " + json.dumps(out, default=str))


if __name__ == "__main__":
    main()
