"""Shared plumbing of the program-corpus checks: generate / rebuild a program, evaluate it with pandas and
build it with dask-expr, classify exceptions."""
import os
import traceback
import warnings

import pandas as pd

from vmon import layouts, programs, tables
from vmon.execs import concat_parts, exec_ref
from vmon.util import derive_rng

INDEX_KINDS_W = ["range", "range", "int_dup", "int_dup", "float", "str", "dt", "unsorted"]


def gen_prog(seedparts, profile="default", nsteps=None, exclude_tags=(), two_prob=0.45, layout_kw=None, extra_cols=0):
    """Deterministic program from seed parts.  Needs dask_expr (sources are built to obtain the pandas input in the
    dtypes dask-expr itself uses)."""
    rng = derive_rng("prog", *seedparts)
    ntab = 2 if rng.random() < two_prob else 1
    tabs, srcs = [], []
    for t in range(ntab):
        spec = {"seed": rng.randrange(10**6), "n": rng.choice([12, 18, 24, 30, 40]), "index": rng.choice(INDEX_KINDS_W), "ridbase": 1000 * t}
        if extra_cols:
            spec["extra"] = extra_cols
        if t == 1 and rng.random() < 0.5:
            # second table: narrower (a dimension table) so merges have few collisions
            spec["cols"] = rng.choice([["k", "g", "s", "rid"], ["i", "k", "f", "b", "rid"], ["k", "u", "t", "rid"], ["u", "g", "c", "rid"]])
        tabs.append(spec)
        df = tables.make_table(spec)
        srcs.append({"table": t, "layout": layouts.random_layout(rng, df, **(layout_kw or {}))})
    if ntab == 1 and rng.random() < 0.25:
        # two differently partitioned sources of the same table
        df = tables.make_table(tabs[0])
        srcs.append({"table": 0, "layout": layouts.random_layout(rng, df, **(layout_kw or {}))})
    prog = {"tables": tabs, "sources": srcs, "steps": [], "out": None}
    b = Built(prog)
    b.build_sources()
    steps, vals = programs.gen_program(rng, b.src_pd, nsteps=nsteps, profile=profile, exclude_tags=exclude_tags)
    prog["steps"] = steps
    prog["out"] = len(srcs) + len(steps) - 1
    return prog


class Built:
    def __init__(self, prog, scratch=None):
        self.prog = prog
        self.scratch = scratch or os.environ.get("VMON_SCRATCH")
        self.tables = None
        self.src_dx = None
        self.src_pd = None
        self.pd_vals = None
        self.dx_vals = None

    def build_sources(self):
        self.tables = [tables.make_table(t) for t in self.prog["tables"]]
        self.src_dx = [layouts.build(self.tables[s["table"]], s["layout"], self.scratch) for s in self.prog["sources"]]
        # the pandas side is the concatenation of the source collection's own partitions
        self.src_pd = [concat_parts(exec_ref(c.expr)) for c in self.src_dx]
        return self

    def fidelity_ok(self):
        """source partitions hold exactly the table's rows in order"""
        for s, got in zip(self.prog["sources"], self.src_pd):
            if got["rid"].tolist() != self.tables[s["table"]]["rid"].tolist():
                return False
        return True

    def eval_pd(self):
        with warnings.catch_warnings():
            warnings.simplefilter("ignore")
            self.pd_vals = programs.eval_pandas(self.prog, self.src_pd)
        return self.pd_vals

    def eval_dx(self, method=None):
        """Build the dask-expr values.  `method`: shuffle method in force while BUILDING (the declared meta of a
        shuffle depends on the configured method at build time, so build and optimize must see the same config)."""
        import contextlib

        import dask

        ctx = dask.config.set({"dataframe.shuffle.method": method}) if method else contextlib.nullcontext()
        with warnings.catch_warnings(), ctx:
            warnings.simplefilter("ignore")
            self.dx_vals = programs.eval_dask(self.prog, self.src_dx)
        return self.dx_vals

    @property
    def out_pd(self):
        return self.pd_vals[self.prog["out"]]

    @property
    def out_dx(self):
        return self.dx_vals[self.prog["out"]]


def exc_site(e):
    tb = traceback.extract_tb(e.__traceback__)
    for fr in reversed(tb):
        if "/dask_expr/" in fr.filename and "/tests/" not in fr.filename:
            return f"{os.path.basename(fr.filename)}:{fr.name}"
    for fr in reversed(tb):
        if "/dask/" in fr.filename:
            return f"dask/{os.path.basename(fr.filename)}:{fr.name}"
    return "?"


def exc_info(e):
    return {"symptom": f"raises:{type(e).__name__}", "site": exc_site(e), "detail": str(e)[:240]}


def plan_classes(expr):
    out = set()
    try:
        for x in expr.walk():
            out.add(type(x).__name__)
            if type(x).__name__ in ("FusedIO", "FusedParquetIO"):
                out.add(type(x.operand("_expr")).__name__)
            if type(x).__name__ == "Fused":
                for y in x.exprs:
                    out.add(type(y).__name__)
                    if type(y).__name__ in ("FusedIO", "FusedParquetIO"):
                        out.add(type(y.operand("_expr")).__name__)
    except Exception:
        pass
    return sorted(out)


def to_pandas_result(parts):
    return concat_parts(parts)
