"""Shared machinery of C06 (partition structure) and C07 (schema): the declared-vs-computed audit (M-plan) of every
user-holdable collection: {optimize_until(L, S) : L a value of the program (a sub-expression of the logical plan the user
built), S a stage}."""
import dask
import numpy as np
import pandas as pd

from vmon import monitors as M
from vmon import progcase, programs
from vmon.compare import dkind
from vmon.execs import exec_ref
from vmon.util import derive_rng, shash

STAGES_QUICK = ["logical", "simplified-logical", "fused"]
STAGES_THOROUGH = ["logical", "simplified-logical", "tuned-logical", "physical", "simplified-physical", "fused"]


def _t(n=40):
    pdf = pd.DataFrame({"a": np.arange(n) % 7, "b": np.arange(n) * 1.5, "c": (np.arange(n) * 7) % n, "s": pd.array(["x", "y", "zz", None] * (n // 4), dtype="str"),
                        "t": pd.Timestamp("2000-01-01") + pd.to_timedelta(np.arange(n), unit="h"), "rid": np.arange(n)}, index=pd.Index(np.arange(n) * 2, name="ix"))
    return pdf


def targeted(scratch):
    """Targeted collections over the division-deriving operators named in C06's anchors."""
    import dask_expr as dx

    pdf = _t()
    d = dx.from_pandas(pdf, npartitions=8)
    out = {}
    out["partitions_source"] = lambda: d.partitions[[1, 3, 4]]
    out["partitions_last"] = lambda: d.partitions[[7]]
    out["partitions_elemwise"] = lambda: (d[["a", "b"]] + 1).partitions[[2, 5]]
    out["fusedio_projection"] = lambda: d[["a"]] + 1
    out["fusedio_projection2"] = lambda: d[["a", "b"]].partitions[[0, 1, 2, 3, 4]] * 2
    out["set_index"] = lambda: d.set_index("c")
    out["set_index_sorted"] = lambda: d.set_index("rid", sorted=True)
    out["set_index_npart"] = lambda: d.set_index("b", npartitions=3)
    out["set_index_divisions"] = lambda: d.set_index("c", divisions=[0, 10, 25, 39])
    out["sort_values"] = lambda: d.sort_values("c")
    out["index_join"] = lambda: d[["a"]].merge(d[["b"]].repartition(npartitions=3), left_index=True, right_index=True)
    out["index_join_outer"] = lambda: d[["a"]].partitions[[0, 1, 2]].merge(d[["b"]], left_index=True, right_index=True, how="outer")
    out["concat0"] = lambda: dx.concat([d.partitions[[0, 1]], d.partitions[[4, 5]]])
    out["concat0_overlap"] = lambda: dx.concat([d, d])
    # inputs whose index ranges touch: the max of the first equals the min of the second (shared boundary value)
    out["concat0_touching"] = lambda: dx.concat([dx.from_pandas(pdf.iloc[:21], npartitions=2), dx.from_pandas(pdf.iloc[20:], npartitions=2)])
    out["concat0_touching3"] = lambda: dx.concat([dx.from_pandas(pdf.iloc[:11], npartitions=1), dx.from_pandas(pdf.iloc[10:31], npartitions=3), dx.from_pandas(pdf.iloc[30:], npartitions=1)])
    out["concat0_adjacent"] = lambda: dx.concat([dx.from_pandas(pdf.iloc[:20], npartitions=2), dx.from_pandas(pdf.iloc[20:], npartitions=2)])
    out["concat1"] = lambda: dx.concat([d[["a"]], d[["b"]].repartition(npartitions=3)], axis=1)
    out["loc_slice"] = lambda: d.loc[10:50]
    out["loc_slice_open"] = lambda: d.loc[33:]
    out["loc_list"] = lambda: d.loc[[4, 30, 62]]
    out["loc_elem"] = lambda: d.loc[20]
    out["shift_freq"] = lambda: dx.from_pandas(pdf.set_index("t"), npartitions=5).shift(2, freq="1h")
    out["shift_rows"] = lambda: d.b.shift(1)
    out["rename_index_sorted"] = lambda: d.b.rename(index=lambda x: x + 1, sorted_index=True) if hasattr(d.b, "rename") else d
    out["head"] = lambda: d.head(3, compute=False)
    out["head_np2"] = lambda: d.head(12, npartitions=3, compute=False)
    out["tail"] = lambda: d.tail(3, compute=False)
    out["repartition_div"] = lambda: d.repartition(divisions=[0, 11, 30, 78])
    out["repartition_n_fewer"] = lambda: d.repartition(npartitions=3)
    out["repartition_n_more"] = lambda: d.repartition(npartitions=13)
    out["repartition_dup_more"] = lambda: dx.from_pandas(pdf.set_index(pdf.a.rename("ai")).sort_index(), npartitions=3).repartition(npartitions=7)
    out["repartition_freq"] = lambda: dx.from_pandas(pdf.set_index("t"), npartitions=3).repartition(freq="6h")
    out["map_index"] = lambda: d.index.to_series().map(lambda x: x, meta=("ix", "i8"))
    out["to_timestamp_like"] = lambda: d.set_index("t").b
    out["cumsum"] = lambda: d[["a", "b"]].cumsum()
    out["rolling"] = lambda: d.b.rolling(3).mean()
    out["groupby_cumsum"] = lambda: d.groupby("a").b.cumsum()
    out["from_array"] = lambda: dx.from_array(np.arange(60).reshape(20, 3), chunksize=6, columns=["p", "q", "r"])
    out["from_array_parts"] = lambda: dx.from_array(np.arange(60).reshape(20, 3), chunksize=6, columns=["p", "q", "r"]).partitions[[1, 3]]
    out["str_index"] = lambda: dx.from_pandas(pdf.set_index("s").dropna().sort_index() if False else pdf.assign(k=pdf.rid.map(lambda v: "k%03d" % v)).set_index("k"), npartitions=4).loc["k010":"k030"]
    out["float_index_setidx"] = lambda: d.set_index("b").partitions[[0, 1]]
    out["dt_index_resample_like"] = lambda: dx.from_pandas(pdf.set_index("t"), npartitions=4).loc["2000-01-01 05:00":"2000-01-01 20:00"]
    if scratch:
        import os

        path = os.path.join(scratch, f"pa-pq-{os.getpid()}")
        if not os.path.exists(path):
            d.to_parquet(path)
        for fs in ("fsspec", "arrow"):
            out[f"parquet_{fs}_div"] = lambda fs=fs: dx.read_parquet(path, filesystem=fs, calculate_divisions=True)
            out[f"parquet_{fs}_proj"] = lambda fs=fs: dx.read_parquet(path, filesystem=fs, calculate_divisions=True)[["a"]] + 1
            out[f"parquet_{fs}_parts"] = lambda fs=fs: dx.read_parquet(path, filesystem=fs, calculate_divisions=True).partitions[[1, 2, 6]]
            out[f"parquet_{fs}_filter"] = lambda fs=fs: dx.read_parquet(path, filesystem=fs, calculate_divisions=True)[lambda x: x.a > 2]
        cpath = os.path.join(scratch, f"pa-csv-{os.getpid()}")
        if not os.path.exists(cpath):
            os.makedirs(cpath)
            for i in range(4):
                pdf.iloc[i * 10:(i + 1) * 10].to_csv(os.path.join(cpath, f"p{i}.csv"), index=False)
        out["csv_proj"] = lambda: dx.read_csv(os.path.join(cpath, "p*.csv"))[["a", "b"]] * 2
        out["csv_parts"] = lambda: dx.read_csv(os.path.join(cpath, "p*.csv")).partitions[[1, 3]]
    return out


def count_checks(x, parts, bump):
    """Row counts obtained without reading data (len / shape / size / Lengths) equal the counts of the computed data."""
    from dask_expr import new_collection
    from dask_expr._expr import Lengths
    from dask_expr._reductions import Len

    if not isinstance(x._meta, (pd.DataFrame, pd.Series, pd.Index)):
        return None
    n_true = sum(len(p) for p in parts)
    try:
        le = Len(x.expr).optimize()
        from_meta = type(le).__name__ == "Literal"
        n = new_collection(Len(x.expr)).compute(scheduler="sync")
    except Exception as ex:
        return dict(progcase.exc_info(ex), oracle="count_len")
    bump("len_checks")
    if from_meta:
        bump("len_answered_from_metadata")
    if int(n) != n_true:
        return {"oracle": "count_len", "symptom": "len-differs", "got": int(n), "exp": n_true, "from_metadata": from_meta}
    try:
        lo = Lengths(x.expr).optimize()
        from_meta = type(lo).__name__ == "Literal"
        ls = new_collection(Lengths(x.expr)).compute(scheduler="sync")
        bump("lengths_checks")
        if from_meta:
            bump("lengths_answered_from_metadata")
        if sum(int(v) for v in ls) != n_true:
            return {"oracle": "count_lengths", "symptom": "lengths-differ", "got": [int(v) for v in ls][:20], "exp": n_true, "from_metadata": from_meta}
    except Exception:
        bump("lengths_refused")
    if isinstance(x._meta, pd.DataFrame):
        try:
            sz = x.size.compute(scheduler="sync")
            bump("size_checks")
            if int(sz) != n_true * x._meta.shape[1]:
                return {"oracle": "count_size", "symptom": "size-differs", "got": int(sz), "exp": n_true * x._meta.shape[1]}
        except Exception:
            bump("size_refused")
    return None


def run(case, mode, cid, tier):
    """mode: 'structure' (C06) or 'schema' (C07)"""
    from dask_expr import new_collection
    from dask_expr._expr import optimize_until

    counters, sets = {}, {}
    rec = {"status": "ok", "counters": counters, "sets": sets, "nt": []}

    def bump(k, v=1):
        counters[k] = counters.get(k, 0) + v

    stages = STAGES_THOROUGH if tier == "thorough" else STAGES_QUICK
    prog = None
    if "targeted" in case:
        import os

        tg = targeted(os.environ.get("VMON_SCRATCH"))
        name = case["targeted"]
        if name not in tg:
            return {"status": "undecided", "counters": {"unknown_target": 1}}
        try:
            coll = tg[name]()
        except Exception as ex:
            return {"status": "refused", "counters": {"build_refused": 1}, "sets": {"build_refusals": [f"{name}:{type(ex).__name__}"]}}
        values = [(name, coll)]
        tag = f"targeted:{name}"
        method = "tasks"
    else:
        prog = case["prog"] if "prog" in case else progcase.gen_prog((cid,) + tuple(case["gen"]), profile=case.get("profile", "default"))
        b = progcase.Built(prog).build_sources()
        tag = shash(prog)
        method = case.get("shuffle") or derive_rng(cid, tag).choice(["tasks", "disk"])
        try:
            b.eval_dx(method)
        except Exception:
            return {"status": "refused", "counters": {"build_refused": 1}}
        try:
            refs = [v.pd for v in b.eval_pd()]
        except Exception:
            refs = None
        ns = len(prog["sources"])
        values = [(f"v{i}", v) for i, v in enumerate(b.dx_vals)]
    viol = None
    with dask.config.set({"dataframe.shuffle.method": method}):
        for vname, coll in values:
            if not hasattr(coll, "expr"):
                continue
            L = coll.expr
            logical_meta = None
            for stage in stages:
                try:
                    e = optimize_until(L, stage)
                    parts = exec_ref(e)
                except Exception:
                    bump("plan_or_run_raises")
                    continue
                try:
                    ref = refs[int(vname[1:])] if (prog is not None and refs is not None) else None
                    probs, st = M.audit_plan(e, parts=parts, schema=(mode == "schema"), structure=(mode == "structure"), ref=ref)
                except Exception as ex:
                    viol = dict(progcase.exc_info(ex), oracle="plan_audit_runs", stage=stage, value=vname)
                    break
                bump("audits")
                for k, v in st.items():
                    bump(k, v)
                sets.setdefault("root_classes", set()).add(type(e).__name__)
                if mode == "structure" and e.divisions[0] is not None and e.npartitions > 1:
                    rec["nt"].append(f"{tag}:{vname}:{stage}")
                if mode == "schema" and isinstance(e._meta, (pd.DataFrame, pd.Series)):
                    rec["nt"].append(f"{tag}:{vname}:{stage}")
                if probs:
                    viol = dict(probs[0], stage=stage, value=vname, root=type(e).__name__, logical_root=type(L).__name__)
                    break
                if mode == "schema":
                    # optimization never changes the declared schema of a query
                    if stage == "logical":
                        logical_meta = e._meta
                    elif logical_meta is not None:
                        from vmon.checks.c14 import _schema_diff

                        sd = _schema_diff(e._meta, logical_meta)
                        bump("declared_schema_stage_comparisons")
                        if sd:
                            viol = dict(sd, oracle="declared_schema_changed_by_optimizer", stage=stage, value=vname, root=type(e).__name__, logical_root=type(L).__name__)
                            break
                if mode == "structure" and stage == "logical" and isinstance(e._meta, (pd.DataFrame, pd.Series)):
                    v = count_checks(new_collection(L), parts, bump)
                    if v:
                        viol = dict(v, stage="counts", value=vname, logical_root=type(L).__name__)
                        break
            if viol:
                break
    sets["root_classes"] = sorted(sets.get("root_classes", []))
    if viol:
        if prog is not None:
            # narrow the program to the failing value
            idx = int(viol["value"][1:])
            prog2 = dict(prog, out=idx)
            viol["ops"] = programs.program_ops(prog)
            viol["src"] = programs.program_source(prog2)
            rec["case"] = {"prog": prog, "shuffle": method}
        else:
            viol["src"] = [tag]
            viol["ops"] = [case["targeted"]]
            rec["case"] = dict(case)
        viol["shuffle"] = method
        rec["status"] = "violation"
        rec["viol"] = viol
    if case.get("targeted") == "set_index" or (case.get("gen") and case["gen"][1] == 6):
        rec["sample"] = {"audited": tag if prog is None else programs.program_source(prog), "values": [v[0] for v in values], "stages": stages}
    return rec
