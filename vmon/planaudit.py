"""Shared machinery of C06 (partition structure) and C07 (schema): the declared-vs-computed audit (M-plan) of every
user-holdable collection: {optimize_until(L, S) : L a value of the program (a sub-expression of the logical plan the user
built), S a stage}."""
import dask
import numpy as np
import pandas as pd

from vmon import monitors as M
from vmon import progcase, programs
from vmon.compare import dkind
from vmon.execs import exec_ref
from vmon.util import derive_rng, shash

STAGES_QUICK = ["logical", "simplified-logical", "fused"]
STAGES_THOROUGH = ["logical", "simplified-logical", "tuned-logical", "physical", "simplified-physical", "fused"]


def _t(n=40):
    pdf = pd.DataFrame({"a": np.arange(n) % 7, "b": np.arange(n) * 1.5, "c": (np.arange(n) * 7) % n, "s": pd.array(["x", "y", "zz", None] * (n // 4), dtype="str"),
                        "t": pd.Timestamp("2000-01-01") + pd.to_timedelta(np.arange(n), unit="h"), "rid": np.arange(n)}, index=pd.Index(np.arange(n) * 2, name="ix"))
    return pdf


def targeted(scratch):
    """Targeted collections over the division-deriving operators named in C06's anchors."""
    import dask_expr as dx

    pdf = _t()
    d = dx.from_pandas(pdf, npartitions=8)
    out = {}
    out["partitions_source"] = lambda: d.partitions[[1, 3, 4]]
    out["partitions_last"] = lambda: d.partitions[[7]]
    out["partitions_elemwise"] = lambda: (d[["a", "b"]] + 1).partitions[[2, 5]]
    out["fusedio_projection"] = lambda: d[["a"]] + 1
    out["fusedio_projection2"] = lambda: d[["a", "b"]].partitions[[0, 1, 2, 3, 4]] * 2
    out["set_index"] = lambda: d.set_index("c")
    out["set_index_sorted"] = lambda: d.set_index("rid", sorted=True)
    out["set_index_npart"] = lambda: d.set_index("b", npartitions=3)
    out["set_index_divisions"] = lambda: d.set_index("c", divisions=[0, 10, 25, 39])
    out["sort_values"] = lambda: d.sort_values("c")
    out["index_join"] = lambda: d[["a"]].merge(d[["b"]].repartition(npartitions=3), left_index=True, right_index=True)
    out["index_join_outer"] = lambda: d[["a"]].partitions[[0, 1, 2]].merge(d[["b"]], left_index=True, right_index=True, how="outer")
    out["concat0"] = lambda: dx.concat([d.partitions[[0, 1]], d.partitions[[4, 5]]])
    out["concat0_overlap"] = lambda: dx.concat([d, d])
    # inputs whose index ranges touch: the max of the first equals the min of the second (shared boundary value)
    out["concat0_touching"] = lambda: dx.concat([dx.from_pandas(pdf.iloc[:21], npartitions=2), dx.from_pandas(pdf.iloc[20:], npartitions=2)])
    out["concat0_touching3"] = lambda: dx.concat([dx.from_pandas(pdf.iloc[:11], npartitions=1), dx.from_pandas(pdf.iloc[10:31], npartitions=3), dx.from_pandas(pdf.iloc[30:], npartitions=1)])
    out["concat0_adjacent"] = lambda: dx.concat([dx.from_pandas(pdf.iloc[:20], npartitions=2), dx.from_pandas(pdf.iloc[20:], npartitions=2)])
    out["concat1"] = lambda: dx.concat([d[["a"]], d[["b"]].repartition(npartitions=3)], axis=1)
    out["loc_slice"] = lambda: d.loc[10:50]
    out["loc_slice_open"] = lambda: d.loc[33:]
    out["loc_list"] = lambda: d.loc[[4, 30, 62]]
    out["loc_elem"] = lambda: d.loc[20]
    out["shift_freq"] = lambda: dx.from_pandas(pdf.set_index("t"), npartitions=5).shift(2, freq="1h")
    out["shift_rows"] = lambda: d.b.shift(1)
    out["rename_index_sorted"] = lambda: d.b.rename(index=lambda x: x + 1, sorted_index=True) if hasattr(d.b, "rename") else d
    out["head"] = lambda: d.head(3, compute=False)
    out["head_np2"] = lambda: d.head(12, npartitions=3, compute=False)
    out["tail"] = lambda: d.tail(3, compute=False)
    out["repartition_div"] = lambda: d.repartition(divisions=[0, 11, 30, 78])
    out["repartition_n_fewer"] = lambda: d.repartition(npartitions=3)
    out["repartition_n_more"] = lambda: d.repartition(npartitions=13)
    out["repartition_dup_more"] = lambda: dx.from_pandas(pdf.set_index(pdf.a.rename("ai")).sort_index(), npartitions=3).repartition(npartitions=7)
    out["repartition_freq"] = lambda: dx.from_pandas(pdf.set_index("t"), npartitions=3).repartition(freq="6h")
    out["map_index"] = lambda: d.index.to_series().map(lambda x: x, meta=("ix", "i8"))
    out["to_timestamp_like"] = lambda: d.set_index("t").b
    out["cumsum"] = lambda: d[["a", "b"]].cumsum()
    out["rolling"] = lambda: d.b.rolling(3).mean()
    out["groupby_cumsum"] = lambda: d.groupby("a").b.cumsum()
    out["from_array"] = lambda: dx.from_array(np.arange(60).reshape(20, 3), chunksize=6, columns=["p", "q", "r"])
    out["from_array_parts"] = lambda: dx.from_array(np.arange(60).reshape(20, 3), chunksize=6, columns=["p", "q", "r"]).partitions[[1, 3]]
    out["str_index"] = lambda: dx.from_pandas(pdf.set_index("s").dropna().sort_index() if False else pdf.assign(k=pdf.rid.map(lambda v: "k%03d" % v)).set_index("k"), npartitions=4).loc["k010":"k030"]
    out["float_index_setidx"] = lambda: d.set_index("b").partitions[[0, 1]]
    out["dt_index_resample_like"] = lambda: dx.from_pandas(pdf.set_index("t"), npartitions=4).loc["2000-01-01 05:00":"2000-01-01 20:00"]
    out.update(schema_targets(pdf, d))
    if scratch:
        import os

        path = os.path.join(scratch, f"pa-pq-{os.getpid()}")
        if not os.path.exists(path):
            d.to_parquet(path)
        for fs in ("fsspec", "arrow"):
            out[f"parquet_{fs}_div"] = lambda fs=fs: dx.read_parquet(path, filesystem=fs, calculate_divisions=True)
            out[f"parquet_{fs}_proj"] = lambda fs=fs: dx.read_parquet(path, filesystem=fs, calculate_divisions=True)[["a"]] + 1
            out[f"parquet_{fs}_parts"] = lambda fs=fs: dx.read_parquet(path, filesystem=fs, calculate_divisions=True).partitions[[1, 2, 6]]
            out[f"parquet_{fs}_filter"] = lambda fs=fs: dx.read_parquet(path, filesystem=fs, calculate_divisions=True)[lambda x: x.a > 2]
        cpath = os.path.join(scratch, f"pa-csv-{os.getpid()}")
        if not os.path.exists(cpath):
            os.makedirs(cpath)
            for i in range(4):
                pdf.iloc[i * 10:(i + 1) * 10].to_csv(os.path.join(cpath, f"p{i}.csv"), index=False)
        out["csv_proj"] = lambda: dx.read_csv(os.path.join(cpath, "p*.csv"))[["a", "b"]] * 2
        out["csv_parts"] = lambda: dx.read_csv(os.path.join(cpath, "p*.csv")).partitions[[1, 3]]
    return out


def sk_names():
    """names of the keyword-surface targets (built once, in the driver, to enumerate the cases)"""
    from vmon import ensure_repo_on_path

    ensure_repo_on_path()
    return sorted(n for n in targeted(None) if n.startswith("sk_"))


def schema_targets(pdf, d):
    """Keyword surface of the front end that adds, renames or removes labels / names / dtypes (C07): every entry is audited
    declared-vs-computed at every stage like the others.  Joins are built so that the broadcast, hash and single-partition
    lowerings are all reached (`method` of the run is 'tasks')."""
    import dask_expr as dx

    out = {}
    small = dx.from_pandas(pdf.iloc[:12][["a", "c", "rid"]].rename(columns={"c": "c2", "rid": "rid2"}), npartitions=2)
    one = dx.from_pandas(pdf.iloc[:9][["a", "b"]].rename(columns={"b": "b2"}), npartitions=1)
    for how in ("inner", "left", "right", "outer"):
        for bc in (None, True, False):
            out[f"sk_merge_indicator_{how}_{bc}"] = lambda how=how, bc=bc: d.merge(small, on="a", how=how, indicator=True, broadcast=bc)
        out[f"sk_merge_indicator_name_{how}"] = lambda how=how: d.merge(small, on="a", how=how, indicator="src", broadcast=True)
        out[f"sk_merge_single_{how}"] = lambda how=how: d.merge(one, on="a", how=how, indicator=True)
        out[f"sk_merge_suffix_{how}"] = lambda how=how: d[["a", "b", "c"]].merge(d[["a", "b", "rid"]].partitions[[0, 1]], on="a", how=how, suffixes=("_l", ""), broadcast=True)
        out[f"sk_merge_lr_{how}"] = lambda how=how: d.merge(small.rename(columns={"a": "a2"}), left_on="a", right_on="a2", how=how)
        out[f"sk_merge_ridx_{how}"] = lambda how=how: d.merge(small.set_index("a"), left_on="a", right_index=True, how=how)
        out[f"sk_join_{how}"] = lambda how=how: d[["a", "b"]].join(d[["a", "c"]].partitions[[1, 2, 3]], lsuffix="_x", rsuffix="_y", how=how)
    for bc in (None, True):
        out[f"sk_merge_semi_{bc}"] = lambda bc=bc: d.merge(small, on="a", how="leftsemi", broadcast=bc)
        out[f"sk_merge_semi_parts_{bc}"] = lambda bc=bc: d.merge(small, on="a", how="leftsemi", broadcast=bc).partitions[[1, 3]]
        out[f"sk_merge_outer_parts_{bc}"] = lambda bc=bc: d.merge(small, on="a", how="left", broadcast=bc).partitions[[0, 2]]
    # column selections through renames whose new labels collide with old ones
    out["sk_rename_swap_sel"] = lambda: d.rename(columns={"a": "b", "b": "a"})["a"]
    out["sk_rename_swap_sel2"] = lambda: d.rename(columns={"a": "b", "b": "a"})[["b", "c"]]
    out["sk_rename_rotate_sel"] = lambda: d.rename(columns={"a": "b", "b": "c", "c": "a"})[["a", "rid"]]
    out["sk_rename_rotate_sel2"] = lambda: d.rename(columns={"a": "b", "b": "c", "c": "a"})["c"]
    out["sk_rename_shift_sel"] = lambda: d.rename(columns={"a": "b", "b": "bb"})["b"]
    out["sk_rename_shift_sel2"] = lambda: d.rename(columns={"a": "b", "b": "bb"})[["bb", "rid"]]
    out["sk_rename_foreign_key_sel"] = lambda: d.rename(columns={"zzz": "q", "a": "A"})[["A", "b"]]
    out["sk_rename_identity_sel"] = lambda: d.rename(columns={"a": "a"})[["a", "c"]]
    out["sk_add_suffix_empty_sel"] = lambda: d.add_suffix("")[["a"]]
    out["sk_add_prefix_sel"] = lambda: d.add_prefix("p_")[["p_a", "p_rid"]]
    out["sk_rename_swap_filter"] = lambda: (lambda e: e[e.a > 3.0][["a", "b"]])(d.rename(columns={"a": "b", "b": "a"}))
    # row counts of two same-size partition selections of one source, answered from metadata, in one query
    def _len_two(series):
        from dask_expr import new_collection
        from dask_expr._reductions import Len

        u = dx.from_pandas(pdf.iloc[:37], chunksize=5)  # 7 partitions of 5 rows and one of 2
        x = u.b if series else u
        return (new_collection(Len(x.partitions[[0]].expr)) * 100 + new_collection(Len(x.partitions[[7]].expr))) * 100 + new_collection(Len(x.partitions[[3, 7]].expr))

    out["sk_len_two_selections_series"] = lambda: _len_two(True)
    out["sk_len_two_selections_frame"] = lambda: _len_two(False)
    out["sk_sort_ignore_index"] = lambda: d.set_index("b").sort_values("c", ignore_index=True)
    out["sk_sort_ignore_index_str"] = lambda: d.set_index("s").sort_values("rid", ignore_index=True)
    out["sk_value_counts"] = lambda: d.a.value_counts()
    out["sk_value_counts_norm"] = lambda: d.a.value_counts(normalize=True)
    out["sk_value_counts_sort"] = lambda: d.s.value_counts(sort=True, dropna=False)
    out["sk_value_counts_unnamed"] = lambda: (d.a + d.c).value_counts()
    out["sk_dropdup_unnamed"] = lambda: (d.a + d.c).drop_duplicates()
    out["sk_dropdup_series"] = lambda: d.a.drop_duplicates()
    out["sk_dropdup_split2"] = lambda: d[["a", "s"]].drop_duplicates(split_out=2)
    out["sk_unique_unnamed"] = lambda: (d.a + d.c).unique()
    out["sk_nunique_split"] = lambda: d.a.nunique(split_out=2)
    for so in (1, 2):
        out[f"sk_gb_unnamed_key_{so}"] = lambda so=so: d.groupby(d.a + d.c).b.sum(split_out=so)
        out[f"sk_gb_named_series_key_{so}"] = lambda so=so: d.groupby(d.a % 2).b.sum(split_out=so)
        out[f"sk_gb_two_keys_{so}"] = lambda so=so: d.groupby(["a", "s"]).agg({"b": ["sum", "mean"], "c": "max"}, split_out=so)
        out[f"sk_gb_size_{so}"] = lambda so=so: d.groupby("a").size(split_out=so)
        out[f"sk_gb_named_agg_{so}"] = lambda so=so: d.groupby("a").agg(lo=("b", "min"), hi=("c", "max"), split_out=so)
        out[f"sk_gb_value_counts_{so}"] = lambda so=so: d.groupby("a").s.value_counts(split_out=so)
        out[f"sk_gb_index_key_{so}"] = lambda so=so: d.groupby("ix").b.sum(split_out=so)
        out[f"sk_gb_nunique_{so}"] = lambda so=so: d.groupby("a").c.nunique(split_out=so)
        out[f"sk_gb_median_{so}"] = lambda so=so: d.groupby("a")[["b", "c"]].median(split_out=so)
        out[f"sk_gb_first_{so}"] = lambda so=so: d.groupby("s", dropna=False)[["b", "t"]].first(split_out=so)
    out["sk_gb_cov"] = lambda: d.groupby("a")[["b", "c"]].cov()
    out["sk_gb_cov_proj"] = lambda: d.groupby("a")[["b", "c"]].cov()["b"]
    out["sk_gb_corr"] = lambda: d.groupby("a")[["b", "c"]].corr()
    out["sk_gb_apply"] = lambda: d.groupby("a")[["b", "c"]].apply(lambda g: g.sum())
    out["sk_gb_transform"] = lambda: d.groupby("a")[["b", "c"]].transform("sum")
    out["sk_gb_shift"] = lambda: d.groupby("a").b.shift(1)
    out["sk_gb_cumcount"] = lambda: d.groupby("a").cumcount()
    out["sk_gb_rolling"] = lambda: d.groupby("a").b.rolling(2).sum()
    out["sk_gb_idxmax"] = lambda: d.groupby("a").b.idxmax()
    out["sk_gb_getitem_list1"] = lambda: d.groupby("a")[["b"]].sum()
    out["sk_rolling_cov_proj"] = lambda: d[["b", "c"]].rolling(3).cov()["b"]
    out["sk_rolling_agg"] = lambda: d[["b", "c"]].rolling(3).agg(["sum", "max"])
    out["sk_reset_index_series"] = lambda: d.b.reset_index()
    out["sk_reset_index_unnamed_series"] = lambda: (d.a + d.c).reset_index()
    out["sk_reset_index_multi"] = lambda: d.groupby(["a", "s"]).b.sum().reset_index()
    out["sk_reset_index_multi_key"] = lambda: d.groupby(["a", "s"]).b.sum().reset_index()["a"]
    out["sk_to_frame_name"] = lambda: d.b.to_frame(name="zz")
    out["sk_to_frame_unnamed"] = lambda: (d.a + d.c).to_frame()
    out["sk_index_to_frame"] = lambda: d.index.to_frame()
    out["sk_index_to_frame_name"] = lambda: d.index.to_frame(name="q", index=False)
    out["sk_index_to_series"] = lambda: d.index.to_series(name="zq")
    out["sk_rename_series_scalar"] = lambda: d.b.rename("bb")
    out["sk_rename_axis"] = lambda: d.rename_axis("newix")
    out["sk_rename_axis_series"] = lambda: d.b.rename_axis("newix")
    out["sk_describe"] = lambda: d[["b", "c"]].describe()
    out["sk_describe_series"] = lambda: d.b.describe()
    out["sk_quantile_list"] = lambda: d[["b", "c"]].quantile([0.25, 0.75])
    out["sk_quantile_scalar"] = lambda: d.b.quantile(0.5)
    out["sk_mode_frame"] = lambda: d[["a", "s"]].mode()
    out["sk_nlargest"] = lambda: d.nlargest(3, ["b"])
    out["sk_idxmax_frame"] = lambda: d[["b", "c"]].idxmax()
    out["sk_cov"] = lambda: d[["a", "b", "c"]].cov()
    out["sk_corr_split"] = lambda: d[["a", "b", "c"]].corr(split_every=2)
    out["sk_memory_usage"] = lambda: d.memory_usage(deep=True)
    out["sk_isin_frame"] = lambda: d[["a", "c"]].isin([1, 2])
    out["sk_explode"] = lambda: d[["a", "s"]].explode("a")
    out["sk_melt_like_stack"] = lambda: d[["a", "c"]].rename(columns={"a": "c", "c": "a"})
    out["sk_pivot_table"] = lambda: d.assign(cat=d.a.astype("category").cat.as_known()).pivot_table(index="c", columns="cat", values="b", aggfunc="sum")
    out["sk_get_dummies_like"] = lambda: d.a.astype("category").cat.as_known().cat.codes
    out["sk_cat_categories"] = lambda: d.s.astype("category").cat.as_known()
    out["sk_str_split"] = lambda: d.s.str.split("z", n=1, expand=True)
    out["sk_str_cat"] = lambda: d.s.str.cat(d.s, sep="-")
    out["sk_dt_accessor"] = lambda: d.t.dt.isocalendar()
    out["sk_to_datetime"] = lambda: dx.to_datetime(d.t.astype("str"))
    out["sk_to_numeric"] = lambda: dx.to_numeric(d.a.astype("str"))
    out["sk_astype_dict"] = lambda: d.astype({"a": "float32", "c": "str"})
    out["sk_select_dtypes"] = lambda: d.select_dtypes(include="number")
    out["sk_eval"] = lambda: d.eval("z = a + c")
    out["sk_assign_series_unnamed"] = lambda: d.assign(z=d.a + d.c, w=1)
    out["sk_combine_first"] = lambda: d[["a", "b"]].partitions[[0, 1]].combine_first(d[["b", "c"]])
    out["sk_fillna_frame"] = lambda: d[["a", "b"]].fillna(d[["a", "b"]].partitions[[0, 1, 2]])
    out["sk_where_other_series"] = lambda: d.b.where(d.a > 2, d.c)
    out["sk_clip_series_bounds"] = lambda: d.b.clip(lower=d.a)
    out["sk_map_series_arg"] = lambda: d.a.map(pd.Series({0: "p", 1: "q"}))
    out["sk_apply_infer"] = lambda: d.apply(lambda r: r["a"] + r["c"], axis=1)
    out["sk_map_partitions_infer"] = lambda: d.map_partitions(lambda x: x.assign(q=x.a.astype("float64"))[["q", "s", "a"]])
    out["sk_map_overlap"] = lambda: d[["b", "c"]].map_overlap(lambda x: x.rolling(2).sum(), before=1, after=0)
    out["sk_resample"] = lambda: dx.from_pandas(pdf.set_index("t")[["a", "b"]], npartitions=4).resample("5h").sum()
    out["sk_resample_agg"] = lambda: dx.from_pandas(pdf.set_index("t")[["a", "b"]], npartitions=4).resample("5h").agg({"a": "sum", "b": "mean"})
    out["sk_resample_count_series"] = lambda: dx.from_pandas(pdf.set_index("t")[["a", "b"]], npartitions=4).b.resample("7h").count()
    out["sk_merge_asof"] = lambda: dx.merge_asof(d[["c", "a"]].sort_values("c"), small.sort_values("c2"), left_on="c", right_on="c2")
    out["sk_merge_asof_on"] = lambda: dx.merge_asof(d[["rid", "a"]], d[["rid", "b"]].partitions[[0, 1, 2]], on="rid")
    out["sk_concat_series_frame"] = lambda: dx.concat([d.b, d[["a"]]], axis=1)
    out["sk_concat_series_names"] = lambda: dx.concat([d.b, d.c], axis=0)
    out["sk_concat_inner"] = lambda: dx.concat([d[["a", "b"]], d[["b", "c"]]], join="inner")
    out["sk_concat_mixed_dtypes"] = lambda: dx.concat([d[["a", "b"]], d[["a", "b"]].astype({"a": "float64", "b": "str"})])
    out["sk_sum_axis1"] = lambda: d[["a", "b", "c"]].sum(axis=1)
    out["sk_count_split"] = lambda: d.count(split_every=2)
    out["sk_std_ddof"] = lambda: d[["b", "c"]].std(ddof=0)
    out["sk_var_numeric_only"] = lambda: d.var(numeric_only=True)
    out["sk_any_axis"] = lambda: (d[["a", "c"]] > 3).any()
    out["sk_squeeze"] = lambda: d[["b"]].squeeze()
    out["sk_head_series"] = lambda: d.b.head(3, compute=False)
    out["sk_sample"] = lambda: d.sample(frac=0.5, random_state=1)
    out["sk_shuffle_index"] = lambda: d.shuffle(on_index=True, npartitions=3)
    out["sk_set_index_keep"] = lambda: d.set_index("c", drop=False)
    out["sk_set_index_series"] = lambda: d.set_index(d.c + 1)
    out["sk_set_index_series_filter"] = lambda: d.set_index(d.c + 1)[lambda x: x.a > 2]
    out["sk_index_arith"] = lambda: d.index + 1
    out["sk_index_map"] = lambda: d.index.map(lambda x: x * 2)
    out["sk_len_filtered_series"] = lambda: d.b[d.a > 2]
    out["sk_nested_fused_broadcast"] = lambda: d[["a", "c"]] + ((d.partitions[[0]].a.sum() + 1) * 2)
    return out


def count_checks(x, parts, bump):
    """Row counts obtained without reading data (len / shape / size / Lengths) equal the counts of the computed data."""
    from dask_expr import new_collection
    from dask_expr._expr import Lengths
    from dask_expr._reductions import Len

    if not isinstance(x._meta, (pd.DataFrame, pd.Series, pd.Index)):
        return None
    n_true = sum(len(p) for p in parts)
    try:
        le = Len(x.expr).optimize()
        from_meta = type(le).__name__ == "Literal"
        n = new_collection(Len(x.expr)).compute(scheduler="sync")
    except Exception as ex:
        return dict(progcase.exc_info(ex), oracle="count_len")
    bump("len_checks")
    if from_meta:
        bump("len_answered_from_metadata")
    if int(n) != n_true:
        return {"oracle": "count_len", "symptom": "len-differs", "got": int(n), "exp": n_true, "from_metadata": from_meta}
    try:
        lo = Lengths(x.expr).optimize()
        from_meta = type(lo).__name__ == "Literal"
        # a plan that collapsed to a Literal holds the tuple of lengths itself; only those are compared partition by partition
        # (computed lengths belong to the optimized plan, whose partition layout may legitimately differ from the unoptimized one)
        ls = list(lo.operands[0]) if from_meta else list(new_collection(Lengths(x.expr)).compute(scheduler="sync"))
        bump("lengths_checks")
        if from_meta:
            bump("lengths_answered_from_metadata")
        true_ls = [len(p) for p in parts]
        if sum(int(v) for v in ls) != n_true or (from_meta and len(ls) == len(true_ls) and [int(v) for v in ls] != true_ls):
            return {"oracle": "count_lengths", "symptom": "lengths-differ", "got": [int(v) for v in ls][:20], "exp": true_ls[:20], "from_metadata": from_meta}
    except Exception:
        bump("lengths_refused")
    if isinstance(x._meta, pd.DataFrame):
        try:
            sz = x.size.compute(scheduler="sync")
            bump("size_checks")
            if int(sz) != n_true * x._meta.shape[1]:
                return {"oracle": "count_size", "symptom": "size-differs", "got": int(sz), "exp": n_true * x._meta.shape[1]}
        except Exception:
            bump("size_refused")
    return None


def run(case, mode, cid, tier):
    """mode: 'structure' (C06) or 'schema' (C07)"""
    from dask_expr import new_collection
    from dask_expr._expr import optimize_until

    counters, sets = {}, {}
    rec = {"status": "ok", "counters": counters, "sets": sets, "nt": []}

    def bump(k, v=1):
        counters[k] = counters.get(k, 0) + v

    stages = STAGES_THOROUGH if tier == "thorough" else STAGES_QUICK
    prog = None
    if "targeted" in case:
        import os

        tg = targeted(os.environ.get("VMON_SCRATCH"))
        name = case["targeted"]
        if name not in tg:
            return {"status": "undecided", "counters": {"unknown_target": 1}}
        method = "tasks"
        try:
            with dask.config.set({"dataframe.shuffle.method": method}):
                coll = tg[name]()
        except Exception as ex:
            return {"status": "refused", "counters": {"build_refused": 1}, "sets": {"build_refusals": [f"{name}:{type(ex).__name__}"]}}
        values = [(name, coll)]
        tag = f"targeted:{name}"
    else:
        prog = case["prog"] if "prog" in case else progcase.gen_prog((cid,) + tuple(case["gen"]), profile=case.get("profile", "default"))
        b = progcase.Built(prog).build_sources()
        tag = shash(prog)
        method = case.get("shuffle") or derive_rng(cid, tag).choice(["tasks", "disk"])
        try:
            b.eval_dx(method)
        except Exception:
            return {"status": "refused", "counters": {"build_refused": 1}}
        try:
            refs = [v.pd for v in b.eval_pd()]
        except Exception:
            refs = None
        ns = len(prog["sources"])
        values = [(f"v{i}", v) for i, v in enumerate(b.dx_vals)]
    viol = None
    with dask.config.set({"dataframe.shuffle.method": method}):
        for vname, coll in values:
            if not hasattr(coll, "expr"):
                continue
            L = coll.expr
            logical_meta = None
            for stage in stages:
                try:
                    e = optimize_until(L, stage)
                    parts = exec_ref(e)
                except Exception:
                    bump("plan_or_run_raises")
                    continue
                try:
                    ref = refs[int(vname[1:])] if (prog is not None and refs is not None) else None
                    probs, st = M.audit_plan(e, parts=parts, schema=(mode == "schema"), structure=(mode == "structure"), ref=ref)
                except Exception as ex:
                    viol = dict(progcase.exc_info(ex), oracle="plan_audit_runs", stage=stage, value=vname)
                    break
                bump("audits")
                for k, v in st.items():
                    bump(k, v)
                sets.setdefault("root_classes", set()).add(type(e).__name__)
                if mode == "structure" and e.divisions[0] is not None and e.npartitions > 1:
                    rec["nt"].append(f"{tag}:{vname}:{stage}")
                if mode == "schema" and isinstance(e._meta, (pd.DataFrame, pd.Series)):
                    rec["nt"].append(f"{tag}:{vname}:{stage}")
                if probs:
                    viol = dict(probs[0], stage=stage, value=vname, root=type(e).__name__, logical_root=type(L).__name__)
                    break
                if mode == "schema":
                    # optimization never changes the declared schema of a query
                    if stage == "logical":
                        logical_meta = e._meta
                    elif logical_meta is not None:
                        from vmon.checks.c14 import _schema_diff

                        sd = _schema_diff(e._meta, logical_meta)
                        bump("declared_schema_stage_comparisons")
                        if sd:
                            viol = dict(sd, oracle="declared_schema_changed_by_optimizer", stage=stage, value=vname, root=type(e).__name__, logical_root=type(L).__name__)
                            break
                if mode == "structure" and stage == "logical" and isinstance(e._meta, (pd.DataFrame, pd.Series)):
                    v = count_checks(new_collection(L), parts, bump)
                    if v:
                        viol = dict(v, stage="counts", value=vname, logical_root=type(L).__name__)
                        break
            if viol:
                break
    sets["root_classes"] = sorted(sets.get("root_classes", []))
    if viol:
        if prog is not None:
            # narrow the program to the failing value
            idx = int(viol["value"][1:])
            prog2 = dict(prog, out=idx)
            viol["ops"] = programs.program_ops(prog)
            viol["src"] = programs.program_source(prog2)
            rec["case"] = {"prog": prog, "shuffle": method}
        else:
            viol["src"] = [tag]
            viol["ops"] = [case["targeted"]]
            rec["case"] = dict(case)
        viol["shuffle"] = method
        rec["status"] = "violation"
        rec["viol"] = viol
    if case.get("targeted") == "set_index" or (case.get("gen") and case["gen"][1] == 6):
        rec["sample"] = {"audited": tag if prog is None else programs.program_source(prog), "values": [v[0] for v in values], "stages": stages}
    return rec
