"""Fresh-process name logger for C08: rebuilds a batch of programs (in a permuted order, interleaved with unrelated filler
queries and gc.collect()) under whatever PYTHONHASHSEED it was started with and prints, per program, the names of every
expression of the logical and the optimized plan and the (masked) graph keys."""
import gc
import json
import sys
import warnings

warnings.filterwarnings("ignore")


def names_of(prog, method):
    import dask

    from vmon import progcase
    from vmon.checks.c08 import observe

    b = progcase.Built(prog).build_sources()
    b.eval_dx(method)
    with dask.config.set({"dataframe.shuffle.method": method}):
        return observe(b.out_dx)


def main():
    from vmon import ensure_repo_on_path

    ensure_repo_on_path()
    import dask_expr as dx
    import pandas as pd

    spec = json.load(open(sys.argv[1]))
    out = {}
    filler = dx.from_pandas(pd.DataFrame({"a": range(20), "b": range(20)}), npartitions=3)
    for j, i in enumerate(spec["order"]):
        item = spec["items"][i]
        try:
            out[str(i)] = names_of(item["prog"], item["method"])
        except Exception as e:
            out[str(i)] = {"error": f"{type(e).__name__}: {e}"[:200]}
        # unrelated queries and garbage collection between the programs
        (filler[filler.a > j].b + j).sum().optimize()
        if j % 2:
            gc.collect()
    print("NAMER " + json.dumps(out))


if __name__ == "__main__":
    main()
