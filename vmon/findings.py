"""Known findings: committed file /verif/known_findings.json, never written at run time.

A violation record `viol` is a dict with structured fields, at least:
  oracle   - which oracle failed (e.g. 'opt_vs_ref', 'pandas', 'plan_divisions')
  symptom  - coarse symptom class ('values', 'fewer-rows', 'duplicate-column-labels', 'raises:KeyError', ...)
  ops      - operator names of the program (list)          [optional]
  classes  - Expr class names in the plan(s) involved       [optional]
  detail   - free text                                      [optional]
  site     - function where an exception was raised         [optional]
An entry matches when every key of its `match` is satisfied:
  oracle / symptom : equal, or member when the entry gives a list
  ops_all / classes_all : all listed items present in viol['ops'] / viol['classes']
  ops_any / classes_any : at least one present
  detail_re / site_re   : regex search
  <other key>       : equality with viol[key] (or membership if list)
Findings are keyed by mechanism, never by case hash or seed.  status 'fixed' entries suppress nothing.
"""
import hashlib
import json
import os
import re

from vmon import VERIF_DIR


def load_known():
    p = os.path.join(VERIF_DIR, "known_findings.json")
    if not os.path.exists(p):
        return []
    return json.load(open(p))["findings"]


def _has(v, key, want):
    got = v.get(key)
    if isinstance(want, list):
        return got in want
    return got == want


def matches(entry, v):
    m = entry["match"]
    for k, want in m.items():
        if k in ("ops_all", "classes_all"):
            have = set(v.get(k.split("_")[0], []) or [])
            if not set(want) <= have:
                return False
        elif k in ("ops_any", "classes_any"):
            have = set(v.get(k.split("_")[0], []) or [])
            if not (set(want) & have):
                return False
        elif k in ("ops_none", "classes_none"):
            have = set(v.get(k.split("_")[0], []) or [])
            if set(want) & have:
                return False
        elif k.endswith("_re"):
            if not re.search(want, str(v.get(k[:-3], ""))):
                return False
        else:
            if not _has(v, k, want):
                return False
    return True


def match_known(known, cid, v):
    for e in known:
        if e.get("status") != "known":
            continue
        if cid not in e["properties"]:
            continue
        if matches(e, v):
            return e
    return None


def mech_key(v):
    """Coarse key used only to group unlisted candidate violations inside one run."""
    return json.dumps([v.get("oracle"), v.get("symptom"), v.get("site"), v.get("stage"), v.get("rule"), v.get("mech")], default=str)


def short(s):
    return hashlib.sha1(s.encode()).hexdigest()[:10]


def brief(v):
    out = {}
    for k in ("oracle", "symptom", "site", "stage", "rule", "ops", "detail", "got", "exp", "col", "src"):
        if k in v:
            out[k] = v[k]
    return out
