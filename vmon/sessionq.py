"""Query pool of C15 sessions: serialisable query specs, builders, observation functions, fault-injecting user function."""
import numpy as np
import pandas as pd

FLAG = {"fail": False}


def flaky(part):
    """user function that fails while the session's fault flag is set (never set in a fresh observer process)"""
    if FLAG["fail"]:
        raise RuntimeError("injected task failure")
    return part.assign(fl=part["rid"] % 3)


def _ident(part):
    return part


def build_query(spec, scratch=None):
    import dask_expr as dx

    from vmon import progcase, tables

    t = spec["t"]
    if t in ("prog", "prog_proj"):
        b = progcase.Built(spec["prog"], scratch).build_sources()
        b.eval_dx(spec.get("method"))
        return b.out_dx if t == "prog" else b.out_dx[spec["cols"]]
    if t == "pq":
        import os
        import tempfile

        from vmon import layouts

        base = scratch or os.environ.get("VMON_SCRATCH") or tempfile.gettempdir()
        path = os.path.join(base, f"pq15-{spec['ds']}-{spec['nfiles']}")
        n = 70
        pdf = tables.make_table({"seed": spec["ds"], "n": n, "index": "range"})
        pdf.index = pd.Index(np.arange(n) * 2 + 1, name="ix")
        if not os.path.exists(path):
            # file sizes far from their listing order: 2, 25, 4, 14, ... rows
            sizes = {4: [2, 30, 5, 33], 5: [2, 25, 4, 30, 9], 7: [2, 20, 3, 15, 4, 21, 5]}[spec["nfiles"]]
            cuts = list(np.cumsum(sizes)[:-1])
            tmp = path + f".tmp{os.getpid()}"
            layouts.build(pdf, {"kind": "cuts", "cuts": [int(c) for c in cuts], "via": "from_map", "divisions": "known"}).to_parquet(tmp)
            try:
                os.rename(tmp, path)
            except OSError:
                pass
        r = dx.read_parquet(path, filesystem=spec["fs"], calculate_divisions=bool(spec.get("cd")))
        v = spec["variant"]
        if v == "proj":
            return r[["g"]] + 1
        if v == "proj2":
            return r[["rid", "u"]]
        if v == "full":
            return r
        if v == "loc":
            return r.loc[31:105]
        if v == "series":
            return r.rid
        return r[r.i > 1][["rid", "g"]]
    pdf = tables.make_table(spec["table"])
    d = dx.from_pandas(pdf, npartitions=spec.get("np", 3), sort=spec.get("sort", True))
    if t == "gb":
        v = spec["variant"]
        base = d.map_partitions(_ident) if "mp" in v else d
        # no column selection on the groupby itself: a later projection is pushed into the groupby's frame operand
        # (the table of these specs only has numeric columns; nothing sits between the groupby and its input)
        g = base.groupby(spec["by"]).sum()
        if v.endswith("proj"):
            return g[["u"]]
        if v == "agg_series":
            return g["rid"]
        return g
    if t == "sort":
        kw = {k: spec[k] for k in ("npartitions", "upsample") if spec.get(k) is not None}
        if spec["kind"] == "set_index":
            return d.set_index(spec["by"], **kw)
        return d.sort_values(spec["by"], ascending=spec.get("ascending", True), **kw)
    if t == "resize":
        return d.repartition(partition_size=spec["size"])
    if t == "frompandas":
        return d[["g", "rid"]] + 1
    if t == "repdiv":
        return dx.repartition(pdf, spec["divisions"])[["rid", "g"]]
    if t == "flaky_setindex":
        return d.map_partitions(flaky).set_index(spec["by"])
    if t == "flaky_sum":
        return d.map_partitions(flaky).groupby("fl").g.sum()
    raise ValueError(t)


def flags_of(spec):
    """(order, index) flags of the result"""
    if spec["t"] in ("prog", "prog_proj"):
        return spec["flags"]["order"], spec["flags"]["index"]
    if spec["t"] == "gb":
        return False, True
    if spec["t"] == "sort":
        return spec["by"] in ("u", "rid"), True
    if spec["t"] == "flaky_sum":
        return False, True
    if spec["t"] == "flaky_setindex":
        return spec["by"] in ("u", "rid"), True
    return True, True


def observe(coll, kinds, method=None):
    """-> dict kind -> observation ('result' is a pandas object, the others are strings / ints)"""
    import dask

    from dask_expr import new_collection
    from dask_expr._reductions import Len

    out = {}
    ctx = dask.config.set({"dataframe.shuffle.method": method}) if method else dask.config.set({})
    with ctx:
        for k in kinds:
            if k == "result":
                out[k] = coll.compute(scheduler="sync")
            elif k == "plan":
                import re

                # object addresses in reprs (functions passed by the user) differ between processes by construction
                out[k] = re.sub(r" at 0x[0-9a-f]+", "", coll.optimize().expr.tree_repr())
            elif k == "divisions":
                out[k] = repr(tuple(coll.divisions))
            elif k == "opt_divisions":
                out[k] = repr(tuple(coll.optimize().divisions))
            elif k == "len":
                out[k] = int(new_collection(Len(coll.expr)).compute(scheduler="sync")) if hasattr(coll._meta, "index") else -1
            elif k == "npartitions":
                out[k] = coll.optimize().npartitions
    return out
