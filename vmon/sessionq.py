"""Query pool of C15 sessions: serialisable query specs, builders, observation functions, fault-injecting user function."""
import numpy as np
import pandas as pd

FLAG = {"fail": False}


def flaky(part):
    """user function that fails while the session's fault flag is set (never set in a fresh observer process)"""
    if FLAG["fail"]:
        raise RuntimeError("injected task failure")
    return part.assign(fl=part["rid"] % 3)


def build_query(spec, scratch=None):
    import dask_expr as dx

    from vmon import progcase, tables

    t = spec["t"]
    if t == "prog":
        b = progcase.Built(spec["prog"], scratch).build_sources()
        b.eval_dx(spec.get("method"))
        return b.out_dx
    pdf = tables.make_table(spec["table"])
    d = dx.from_pandas(pdf, npartitions=spec.get("np", 3), sort=spec.get("sort", True))
    if t == "sort":
        kw = {k: spec[k] for k in ("npartitions", "upsample") if spec.get(k) is not None}
        if spec["kind"] == "set_index":
            return d.set_index(spec["by"], **kw)
        return d.sort_values(spec["by"], ascending=spec.get("ascending", True), **kw)
    if t == "resize":
        return d.repartition(partition_size=spec["size"])
    if t == "frompandas":
        return d[["g", "rid"]] + 1
    if t == "repdiv":
        return dx.repartition(pdf, spec["divisions"])[["rid", "g"]]
    if t == "flaky_setindex":
        return d.map_partitions(flaky).set_index(spec["by"])
    if t == "flaky_sum":
        return d.map_partitions(flaky).groupby("fl").g.sum()
    raise ValueError(t)


def flags_of(spec):
    """(order, index) flags of the result"""
    if spec["t"] == "prog":
        return spec["flags"]["order"], spec["flags"]["index"]
    if spec["t"] == "sort":
        return spec["by"] in ("u", "rid"), True
    if spec["t"] == "flaky_sum":
        return False, True
    if spec["t"] == "flaky_setindex":
        return spec["by"] in ("u", "rid"), True
    return True, True


def observe(coll, kinds, method=None):
    """-> dict kind -> observation ('result' is a pandas object, the others are strings / ints)"""
    import dask

    from dask_expr import new_collection
    from dask_expr._reductions import Len

    out = {}
    ctx = dask.config.set({"dataframe.shuffle.method": method}) if method else dask.config.set({})
    with ctx:
        for k in kinds:
            if k == "result":
                out[k] = coll.compute(scheduler="sync")
            elif k == "plan":
                import re

                # object addresses in reprs (functions passed by the user) differ between processes by construction
                out[k] = re.sub(r" at 0x[0-9a-f]+", "", coll.optimize().expr.tree_repr())
            elif k == "divisions":
                out[k] = repr(tuple(coll.divisions))
            elif k == "opt_divisions":
                out[k] = repr(tuple(coll.optimize().divisions))
            elif k == "len":
                out[k] = int(new_collection(Len(coll.expr)).compute(scheduler="sync")) if hasattr(coll._meta, "index") else -1
            elif k == "npartitions":
                out[k] = coll.optimize().npartitions
    return out
