"""Second wave of operators for the program generator (tag "w2").

They are drawn by a separate, content-derived random stream in gen_program, so a program that contains none of them
is generated exactly as before this file existed (the seeds already swept stay comparable).
Every op here was first probed against pandas on the unchanged tree (tools/probe notes in DESIGN.md 10.6); operations whose
dask semantics are documented to differ from pandas (kurtosis/skew bias, approximate quantiles, str.contains on NA under
pyarrow strings, get_group via legacy dask, merge_asof index; pivot_table's unobserved categories; tail(), which is
defined on the last partition only and belongs to C11) are deliberately left out.
"""
import pandas as pd

from vmon.programs import F, NUM_KINDS, Op, cols_of_kind, ev, gen_sexpr, numcols

W2 = ["w2"]


def _iscat(s):
    return isinstance(s.dtype, pd.CategoricalDtype)


# ---- sort variants ---------------------------------------------------------------------------------


def s_sort2(rng, ins):
    df = ins[0].pd
    cands = [c for c in df.columns if c in ("u", "rid", "k", "i", "f", "g", "t")]
    tie = [c for c in ("rid", "u") if c in df.columns]
    if not cands or not tie:
        return None
    by = list(dict.fromkeys([rng.choice(cands), tie[0]]))
    asc = [rng.random() < 0.5 for _ in by]
    return {"by": by, "ascending": asc if rng.random() < 0.7 else asc[0], "na_position": rng.choice(["first", "last"])}


def f_sort2(ins, p, res):
    df = ins[0].pd
    return bool(not df.duplicated(subset=p["by"]).any()), ins[0].index


Op("sort_values2", 1, ["frame"], s_sort2, lambda lib, ins, p: ins[0].sort_values(p["by"], ascending=p["ascending"], na_position=p["na_position"]), flags=f_sort2,
   weight=1.0, tags=["sort", "shuffle"] + W2, src="{0}.sort_values({by!r}, ascending={ascending}, na_position={na_position!r})")

# ---- scalar-on-the-left binary operators and other series element ops ------------------------------------


def s_selem2(rng, ins):
    s = ins[0].pd
    k = getattr(s.dtype, "kind", "O")
    if _iscat(s):
        return {"fn": "cat_codes"}
    if k in NUM_KINDS:
        return {"fn": rng.choice(["rsub", "rdiv", "rlt", "rmul", "radd", "req", "case_when", "replace", "mask", "where_other", "rename", "notnull"])}
    if k == "b":
        return {"fn": rng.choice(["rand", "ror", "rename"])}
    if k == "M":
        return {"fn": rng.choice(["dt_month", "dt_day", "rename", "rlt_ts"])}
    return {"fn": rng.choice(["str_slice", "str_cat", "rename", "str_lower", "str_startswith_fill"])}


def a_selem2(lib, ins, p):
    s = ins[0]
    fn = p["fn"]
    return {
        "rsub": lambda: 2 - s, "rdiv": lambda: 1 / (s + 100), "rlt": lambda: 1 < s, "rmul": lambda: 3 * s, "radd": lambda: 0.5 + s, "req": lambda: 2 == s,
        "case_when": lambda: s.case_when([(s > 2, 100)]), "replace": lambda: s.replace(1, 100), "mask": lambda: s.mask(s > 2, -1), "where_other": lambda: s.where(s > 1, s * 10),
        "rename": lambda: s.rename("renamed"), "notnull": lambda: s.notnull(), "rand": lambda: True & s, "ror": lambda: False | s,
        "dt_month": lambda: s.dt.month, "dt_day": lambda: s.dt.day, "rlt_ts": lambda: pd.Timestamp("2001-01-20") < s,
        "str_slice": lambda: s.str[:1], "str_cat": lambda: s.str.cat(s, sep="-"), "str_lower": lambda: s.str.lower(), "str_startswith_fill": lambda: s.fillna("").str.startswith("a"),
        "cat_codes": lambda: s.cat.codes,
    }[fn]()


Op("series_elem2", 1, ["series"], s_selem2, a_selem2, weight=2.0, tags=["elemwise"] + W2, src="{0}.<{fn}>")

# ---- frame projections through other front ends --------------------------------------------------------


def s_proj2(rng, ins):
    df = ins[0].pd
    if df.shape[1] < 2:
        return None
    kind = rng.choice(["loc_cols", "iloc_cols", "loc_colslice", "select_num", "select_excl", "loc_mask_cols", "loc_callable"])
    cols = list(df.columns)
    p = {"kind": kind}
    if kind in ("loc_cols", "loc_mask_cols"):
        p["cols"] = rng.sample(cols, rng.randrange(1, len(cols)))
    elif kind == "iloc_cols":
        p["pos"] = sorted(rng.sample(range(len(cols)), rng.randrange(1, len(cols))), reverse=rng.random() < 0.3)
    elif kind == "loc_colslice":
        a, b = sorted(rng.sample(range(len(cols)), 2))
        p["lo"], p["hi"] = cols[a], cols[b]
    if kind in ("loc_mask_cols", "loc_callable"):
        nc = numcols(df)
        if not nc:
            return None
        p["c"] = rng.choice(nc)
        v = sorted(set(df[p["c"]].dropna().tolist()))
        if not v:
            return None
        p["thr"] = float(v[len(v) // 2]) + 0.25
    return p


def a_proj2(lib, ins, p):
    d = ins[0]
    k = p["kind"]
    if k == "loc_cols":
        return d.loc[:, p["cols"]]
    if k == "iloc_cols":
        return d.iloc[:, p["pos"]]
    if k == "loc_colslice":
        return d.loc[:, p["lo"]:p["hi"]]
    if k == "select_num":
        return d.select_dtypes(include="number")
    if k == "select_excl":
        return d.select_dtypes(exclude=["number"])
    if k == "loc_mask_cols":
        return d.loc[d[p["c"]] > p["thr"], p["cols"]]
    thr, c = p["thr"], p["c"]
    return d.loc[lambda q: q[c] > thr]


Op("proj2", 1, ["frame"], s_proj2, a_proj2, weight=1.5, tags=["proj"] + W2, src="{0}.<{kind}>")


def s_query(rng, ins):
    df = ins[0].pd
    nc = [c for c in numcols(df) if isinstance(c, str) and c.isidentifier()]
    if not nc:
        return None
    a = rng.choice(nc)
    b = rng.choice(nc)
    v = sorted(set(df[a].dropna().tolist()))
    if not v:
        return None
    thr = float(v[len(v) // 2]) + 0.25
    if rng.random() < 0.5:
        return {"kind": "query", "expr": f"{a} > {thr}" + (f" and {b} == {b}" if rng.random() < 0.5 else "")}
    return {"kind": "eval", "expr": f"qz = {a} + {b} * 2"}


Op("query_eval", 1, ["frame"], s_query, lambda lib, ins, p: ins[0].query(p["expr"]) if p["kind"] == "query" else ins[0].eval(p["expr"]), weight=0.8, tags=["filter", "assign"] + W2,
   src="{0}.{kind}({expr!r})")

# ---- frame element-wise -----------------------------------------------------------------------------------


def s_felem2(rng, ins):
    df = ins[0].pd
    nc = numcols(df)
    if not nc:
        return None
    cols = rng.sample(nc, rng.randrange(1, len(nc) + 1))
    fn = rng.choice(["replace", "mask", "isin", "notnull", "cumsum_axis1", "diff", "ffill_limit", "rsub", "rfloordiv", "pow2"])
    if fn in ("diff", "ffill_limit") and not ins[0].order:
        fn = "mask"
    return {"cols": cols, "fn": fn}


def a_felem2(lib, ins, p):
    d = ins[0][p["cols"]]
    return {
        "replace": lambda: d.replace({1: 100}), "mask": lambda: d.mask(d > 2, -1), "isin": lambda: d.isin([1, 2, 2.5]), "notnull": lambda: d.notnull(),
        "cumsum_axis1": lambda: d.cumsum(axis=1), "diff": lambda: d.diff(2), "ffill_limit": lambda: d.ffill(limit=1), "rsub": lambda: 10 - d, "rfloordiv": lambda: 100 // (d + 50), "pow2": lambda: d ** 2,
    }[p["fn"]]()


Op("frame_elem2", 1, ["frame"], s_felem2, a_felem2, weight=1.5, tags=["elemwise"] + W2, src="{0}[{cols!r}].<{fn}>")


def s_rowred(rng, ins):
    df = ins[0].pd
    nc = numcols(df)
    if len(nc) < 2:
        return None
    return {"cols": rng.sample(nc, rng.randrange(2, len(nc) + 1)), "fn": rng.choice(["sum", "mean", "max", "min", "count", "any_gt"])}


def a_rowred(lib, ins, p):
    d = ins[0][p["cols"]]
    if p["fn"] == "any_gt":
        return (d > 3).any(axis=1)
    return getattr(d, p["fn"])(axis=1)


Op("row_reduce", 1, ["frame"], s_rowred, a_rowred, weight=1.0, tags=["elemwise"] + W2, src="{0}[{cols!r}].{fn}(axis=1)")


def _rowfn(r, a, b):
    return r[a] + r[b]


def s_apply_rows(rng, ins):
    df = ins[0].pd
    nc = [c for c in numcols(df) if df[c].dtype.kind in "iu"]
    if len(nc) < 2:
        return None
    a, b = rng.sample(nc, 2)
    return {"a": a, "b": b}


def a_apply_rows(lib, ins, p):
    if lib == "pd":
        return ins[0].apply(_rowfn, axis=1, args=(p["a"], p["b"]))
    # no user meta: a stand-in like (None, "int64") also asserts an unnamed index, which is the user's claim, not dask-expr's
    return ins[0].apply(_rowfn, axis=1, args=(p["a"], p["b"]))


Op("apply_rows", 1, ["frame"], s_apply_rows, a_apply_rows, weight=0.5, tags=["udf", "elemwise"] + W2, src="{0}.apply(lambda r: r[{a!r}] + r[{b!r}], axis=1)")

# ---- labels ----------------------------------------------------------------------------------------------


def s_labels2(rng, ins):
    df = ins[0].pd
    kind = rng.choice(["set_columns", "rename_axis", "rename_fn"])
    if kind == "rename_fn" and not all(isinstance(c, str) for c in df.columns):
        kind = "rename_axis"
    p = {"kind": kind}
    if kind == "set_columns":
        p["new"] = [("N%d" % j if rng.random() < 0.5 else c) for j, c in enumerate(df.columns)]
        if len(set(map(str, p["new"]))) != len(p["new"]):
            return None
    return p


def a_labels2(lib, ins, p):
    d = ins[0]
    if p["kind"] == "set_columns":
        d = d.copy()
        d.columns = p["new"]
        return d
    if p["kind"] == "rename_axis":
        return d.rename_axis("nn")
    return d.rename(columns=str.upper)


Op("labels2", 1, ["frame"], s_labels2, a_labels2, weight=1.0, tags=["rename"] + W2, src="{0}.<{kind}>")

# ---- reductions ------------------------------------------------------------------------------------------


def s_reduce2(rng, ins):
    s = ins[0].pd
    k = getattr(s.dtype, "kind", "O")
    if _iscat(s) or k not in NUM_KINDS:
        return None
    fn = rng.choice(["sum_min_count", "sum_skipna_false", "std_ddof0", "var_ddof0", "mode", "idxmax", "idxmin", "prod_small", "sem", "nsmallest"])
    if fn in ("idxmax", "idxmin"):
        if not ins[0].index or not s.index.is_unique or s.isna().any() or s.duplicated().any() or not len(s):
            fn = "mode"
    if fn == "nsmallest" and (s.isna().any() or s.duplicated().any()):
        fn = "mode"
    return {"fn": fn, "mc": rng.choice([1, 5, 1000])}


def a_reduce2(lib, ins, p):
    s = ins[0]
    fn = p["fn"]
    return {
        "sum_min_count": lambda: s.sum(min_count=p["mc"]), "sum_skipna_false": lambda: s.sum(skipna=False), "std_ddof0": lambda: s.std(ddof=0), "var_ddof0": lambda: s.var(ddof=0),
        "mode": lambda: s.mode(), "idxmax": lambda: s.idxmax(), "idxmin": lambda: s.idxmin(), "prod_small": lambda: (s.clip(-2, 2)).prod(), "sem": lambda: s.sem(), "nsmallest": lambda: s.nsmallest(3),
    }[fn]()


Op("reduce_series2", 1, ["series"], s_reduce2, a_reduce2, flags=F(order=True, index=True), weight=1.2, tags=["reduction"] + W2, src="{0}.<{fn}>")


def s_freduce2(rng, ins):
    df = ins[0].pd
    nc = numcols(df)
    if not nc:
        return None
    cols = rng.sample(nc, rng.randrange(1, len(nc) + 1))
    fn = rng.choice(["sum_skipna_false", "var_ddof0", "nunique", "mode", "isnull_any", "sum_min_count", "idxmax"])
    if fn == "idxmax":
        sub = df[cols]
        if not ins[0].index or not df.index.is_unique or sub.isna().any().any() or any(sub[c].duplicated().any() for c in cols) or not len(df):
            fn = "nunique"
    return {"cols": cols, "fn": fn}


def a_freduce2(lib, ins, p):
    d = ins[0][p["cols"]]
    return {
        "sum_skipna_false": lambda: d.sum(skipna=False), "var_ddof0": lambda: d.var(ddof=0), "nunique": lambda: d.nunique(), "mode": lambda: d.mode(),
        "isnull_any": lambda: d.isnull().any(), "sum_min_count": lambda: d.sum(min_count=5), "idxmax": lambda: d.idxmax(),
    }[p["fn"]]()


Op("reduce_frame2", 1, ["frame"], s_freduce2, a_freduce2, flags=F(order=True, index=True), weight=1.0, tags=["reduction"] + W2, src="{0}[{cols!r}].<{fn}>")

# ---- groupby with other front ends -------------------------------------------------------------------------


def s_groupby2(rng, ins):
    df = ins[0].pd
    keys = [c for c in df.columns if c in ("k", "i", "s", "b")]
    vals = [c for c in numcols(df) if c not in ("k", "i")]
    if not keys or not vals:
        return None
    by = rng.choice(keys)
    kind = rng.choice(["first", "last", "multi_agg", "series_key", "sort_true", "size2", "value_counts", "named_agg", "sort_false", "dropna_false"])
    if kind in ("first", "last") and not ins[0].order:
        kind = "multi_agg"
    if kind == "series_key" and by not in numcols(df):
        kind = "sort_true"
    p = {"by": by, "col": rng.choice(vals), "kind": kind}
    if kind == "value_counts":
        ic = [c for c in ("i", "k", "b") if c in df.columns and c != by]
        if not ic:
            return None
        p["col"] = rng.choice(ic)
    return p


def a_groupby2(lib, ins, p):
    d, by, c, k = ins[0], p["by"], p["col"], p["kind"]
    if k == "first":
        return d.groupby(by)[c].first()
    if k == "last":
        return d.groupby(by)[c].last()
    if k == "multi_agg":
        return d.groupby(by).agg({c: ["sum", "max"]})
    if k == "series_key":
        return d.groupby(d[by] % 2)[c].sum()
    if k == "sort_true":
        return d.groupby(by, sort=True)[c].sum()
    if k == "sort_false":
        return d.groupby(by, sort=False)[c].max()
    if k == "dropna_false":
        return d.groupby(by, dropna=False)[c].count()
    if k == "size2":
        return d.groupby(by).size()
    if k == "value_counts":
        return d.groupby(by)[c].value_counts()
    return d.groupby(by).agg(lo=(c, "min"), hi=(c, "max"))


def f_groupby2(ins, p, res):
    return p["kind"] == "sort_true", True


Op("groupby2", 1, ["frame"], s_groupby2, a_groupby2, flags=f_groupby2, weight=1.0, tags=["groupby", "reduction"] + W2, src="{0}.groupby({by!r})<{kind} {col!r}>")


# ---- row selection -------------------------------------------------------------------------------------


def s_rows2(rng, ins):
    df = ins[0].pd
    kind = rng.choice(["dropna_thresh", "dropna_how_all", "isin_filter", "loc_mask", "between_filter"])
    p = {"kind": kind}
    nc = numcols(df)
    if kind in ("isin_filter", "loc_mask", "between_filter"):
        if not nc:
            return None
        p["c"] = rng.choice(nc)
        v = sorted(set(df[p["c"]].dropna().tolist()))
        if not v:
            return None
        p["vals"] = [float(x) for x in rng.sample(v, min(len(v), 3))]
        p["thr"] = float(v[len(v) // 2]) + 0.25
    if kind == "dropna_thresh":
        p["thresh"] = max(1, df.shape[1] - 1)
    if kind == "dropna_how_all":
        sub = [c for c in ("f", "s") if c in df.columns]
        if not sub:
            return None
        p["subset"] = sub
    return p


def a_rows2(lib, ins, p):
    d, k = ins[0], p["kind"]
    if k == "dropna_thresh":
        return d.dropna(thresh=p["thresh"])
    if k == "dropna_how_all":
        return d.dropna(how="all", subset=p["subset"])
    if k == "isin_filter":
        return d[d[p["c"]].isin(p["vals"])]
    if k == "loc_mask":
        return d.loc[d[p["c"]] > p["thr"]]
    return d[d[p["c"]].between(p["thr"] - 2, p["thr"] + 2, inclusive="left")]


def f_rows2(ins, p, res):
    return ins[0].order, ins[0].index


Op("rows2", 1, ["frame"], s_rows2, a_rows2, flags=f_rows2, weight=1.2, tags=["filter"] + W2, src="{0}.<{kind}>")

# ---- two-frame, index aligned ---------------------------------------------------------------------------


def s_join(rng, ins):
    a, b = ins[0].pd, ins[1].pd
    if a.index.dtype != b.index.dtype or (a.index.has_duplicates and b.index.has_duplicates):
        return None
    if isinstance(a.index, pd.MultiIndex) or isinstance(b.index, pd.MultiIndex):
        return None
    return {"how": rng.choice(["left", "inner", "outer", "right"])}


Op("join", 2, ["frame", "frame"], s_join, lambda lib, ins, p: ins[0].join(ins[1], lsuffix="_l", rsuffix="_r", how=p["how"]), flags=F(order=False, index=True), needs_index=True,
   weight=0.6, tags=["merge", "align"] + W2, src="{0}.join({1}, lsuffix='_l', rsuffix='_r', how={how!r})")


def s_combine_first(rng, ins):
    a, b = ins[0].pd, ins[1].pd
    if not (a.index.is_unique and b.index.is_unique) or a.index.dtype != b.index.dtype:
        return None
    common = [c for c in a.columns if c in b.columns and c in numcols(a) and c in numcols(b) and a[c].dtype == b[c].dtype]
    if not common:
        return None
    return {"cols": common[: rng.randrange(1, len(common) + 1)]}


Op("combine_first", 2, ["frame", "frame"], s_combine_first, lambda lib, ins, p: ins[0][p["cols"]].combine_first(ins[1][p["cols"]]), flags=F(order=False, index=True), needs_index=True,
   weight=0.4, tags=["align"] + W2, src="{0}[{cols!r}].combine_first({1}[{cols!r}])")

# ---- renames whose new labels collide with existing ones (swap / rotation / shift), no-op and partly foreign maps -------


def s_rename2(rng, ins):
    df = ins[0].pd
    cols = [c for c in df.columns if isinstance(c, str)]
    if len(cols) < 2:
        return None
    kind = rng.choice(["swap", "rotate", "shift", "foreign_key", "identity", "empty_suffix"])
    if kind == "rotate" and len(cols) < 3:
        kind = "swap"
    if kind == "swap":
        a, b = rng.sample(cols, 2)
        m = {a: b, b: a}
    elif kind == "rotate":
        a, b, c = rng.sample(cols, 3)
        m = {a: b, b: c, c: a}
    elif kind == "shift":
        a, b = rng.sample(cols, 2)
        m = {a: b, b: b + b}
    elif kind == "foreign_key":
        a = rng.choice(cols)
        m = {"not_a_column": "nn", a: a + "_q"}
    elif kind == "identity":
        a = rng.choice(cols)
        m = {a: a}
    else:
        return {"kind": kind, "map": {}}
    return {"kind": kind, "map": m}


def a_rename2(lib, ins, p):
    if p["kind"] == "empty_suffix":
        return ins[0].add_suffix("")
    return ins[0].rename(columns=p["map"])


Op("rename2", 1, ["frame"], s_rename2, a_rename2, weight=1.0, tags=["rename"] + W2, src="{0}.rename(columns={map!r})  # {kind}")

# ---- merges with more of the keyword surface -------------------------------------------------------------


def s_merge2(rng, ins):
    a, b = ins[0].pd, ins[1].pd
    common = [c for c in a.columns if c in b.columns and c in ("k", "i", "s", "u", "rid", "b")]
    if not common:
        return None
    on = rng.choice(common)
    if len(a.merge(b, on=on, how="outer")) > 400:
        return None
    p = {"on": on, "how": rng.choice(["inner", "left", "right", "outer"]), "kind": rng.choice(["indicator", "indicator_name", "left_right_on", "on_index_right", "suffix_one_side"])}
    if rng.random() < 0.5:
        p["broadcast"] = rng.choice([True, True, False])
    if rng.random() < 0.6:
        p["shuffle_method"] = "tasks"
    if p["kind"] == "on_index_right" and (b[on].isna().any() or p["how"] in ("right", "outer")):
        p["kind"] = "indicator"
    return p


def a_merge2(lib, ins, p):
    a, b = ins
    kw = {"how": p["how"]}
    k = p["kind"]
    if lib == "dx":
        for x in ("broadcast", "shuffle_method"):
            if x in p:
                kw[x] = p[x]
    if k == "indicator":
        return a.merge(b, on=p["on"], indicator=True, **kw)
    if k == "indicator_name":
        return a.merge(b, on=p["on"], indicator="src", **kw)
    if k == "left_right_on":
        b2 = b.rename(columns={p["on"]: "rkey"})
        return a.merge(b2, left_on=p["on"], right_on="rkey", **kw)
    if k == "on_index_right":
        b2 = b.set_index(p["on"])
        return a.merge(b2, left_on=p["on"], right_index=True, **kw)
    return a.merge(b, on=p["on"], suffixes=("", "_r"), **kw)


Op("merge2", 2, ["frame", "frame"], s_merge2, a_merge2, flags=F(order=False, index=False), weight=1.5, tags=["merge", "shuffle"] + W2, src="{0}.merge({1}, on={on!r}, how={how!r})  # {kind}")
