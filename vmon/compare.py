"""Comparator: canonical form of results and comparison under order / index / exactness flags."""
import math

import numpy as np
import pandas as pd

PD = (pd.DataFrame, pd.Series, pd.Index)
NA = ("~na",)


def kind_of(x):
    if isinstance(x, pd.DataFrame):
        return "frame"
    if isinstance(x, pd.Series):
        return "series"
    if isinstance(x, pd.Index):
        return "index"
    return "scalar"


def dkind(dt):
    """Coarse dtype kind."""
    if isinstance(dt, pd.CategoricalDtype):
        return "C"
    s = str(dt)
    if s in ("str", "string", "object") or s.startswith("string"):
        return "O"
    k = getattr(dt, "kind", "O")
    if k in "iu":
        return "i"
    if k in "SU":
        return "O"
    return k


def norm(v):
    if v is None or v is pd.NA or v is pd.NaT:
        return NA
    if isinstance(v, (float, np.floating)):
        v = float(v)
        return NA if math.isnan(v) else v
    if isinstance(v, (np.integer,)):
        return int(v)
    if isinstance(v, (np.bool_,)):
        return bool(v)
    if isinstance(v, (pd.Timestamp, np.datetime64)):
        t = pd.Timestamp(v)
        return NA if t is pd.NaT else ("ts", t.value)
    if isinstance(v, (pd.Timedelta, np.timedelta64)):
        t = pd.Timedelta(v)
        return NA if t is pd.NaT else ("td", t.value)
    if isinstance(v, (list, tuple, np.ndarray)):
        return tuple(norm(x) for x in v)
    return v


def _sortkey(v):
    if v == NA if isinstance(v, tuple) else False:
        return (0, 0)
    if isinstance(v, bool):
        return (1, int(v))
    if isinstance(v, (int, float)):
        f = float(v)
        if f != 0 and math.isfinite(f):
            # round to 8 significant digits so tolerance-equal floats sort together
            mag = 8 - int(math.floor(math.log10(abs(f)))) - 1
            f = round(f, mag)
        return (1, f)
    if isinstance(v, str):
        return (2, v)
    if isinstance(v, tuple):
        return (3, tuple(_sortkey(x) for x in v))
    return (4, repr(v))


def to_frame(x, index=True):
    """Canonical DataFrame (positional string column names) + labels/names description."""
    if isinstance(x, pd.Index) and not isinstance(x, pd.MultiIndex):
        desc = {"kind": "index", "name": x.name}
        return pd.DataFrame({"v": np.asarray(x.astype(object) if False else x)} if False else {"v": x.to_series().reset_index(drop=True)}), desc
    if isinstance(x, pd.MultiIndex):
        desc = {"kind": "index", "name": list(x.names)}
        return x.to_frame(index=False), desc
    if isinstance(x, pd.Series):
        desc = {"kind": "series", "name": x.name, "index_names": list(x.index.names)}
        df = x.to_frame("v")
    else:
        desc = {"kind": "frame", "columns": list(x.columns), "index_names": list(x.index.names)}
        df = x.copy(deep=False)
        df.columns = [f"c{i}" for i in range(df.shape[1])]
    if index:
        idx = df.index.to_frame(index=False)
        idx.columns = [f"__i{j}" for j in range(idx.shape[1])]
        df = pd.concat([idx, df.reset_index(drop=True)], axis=1)
    else:
        df = df.reset_index(drop=True)
    return df, desc


def rows_of(df):
    cols = [df.iloc[:, i] for i in range(df.shape[1])]
    lists = []
    for c in cols:
        if isinstance(c.dtype, pd.CategoricalDtype):
            c = c.astype(object)
        lists.append([norm(v) for v in c.tolist()])
    return list(zip(*lists)) if lists else [() for _ in range(len(df))]


def val_eq(a, b, exact, rtol):
    if a == NA if isinstance(a, tuple) else False:
        return b == NA if isinstance(b, tuple) else False
    if isinstance(b, tuple) and b == NA:
        return False
    if isinstance(a, bool) or isinstance(b, bool):
        return a == b
    if isinstance(a, (int, float)) and isinstance(b, (int, float)):
        if a == b:
            return True
        if exact:
            return False
        if math.isinf(a) or math.isinf(b):
            return False
        return abs(a - b) <= rtol * max(1.0, abs(a), abs(b))
    if isinstance(a, tuple) and isinstance(b, tuple):
        return len(a) == len(b) and all(val_eq(x, y, exact, rtol) for x, y in zip(a, b))
    try:
        return bool(a == b)
    except Exception:
        return repr(a) == repr(b)


def compare(got, exp, order=True, index=True, exact=False, rtol=1e-9, dtypes=True, names=True):
    """None if `got` equals `exp` under the flags; otherwise a dict describing the difference
    with a coarse 'symptom' class used for keying findings."""
    kg, ke = kind_of(got), kind_of(exp)
    if kg != ke:
        return {"symptom": "container-kind", "got": kg, "exp": ke}
    if kg == "scalar":
        if not exact and (isinstance(got, np.float32) or isinstance(exp, np.float32)):
            rtol = max(rtol, 1e-5)
        a, b = norm(_unwrap(got)), norm(_unwrap(exp))
        if val_eq(a, b, exact, rtol):
            return None
        return {"symptom": "scalar-value", "got": repr(got)[:80], "exp": repr(exp)[:80]}
    fg, dg = to_frame(got, index)
    fe, de = to_frame(exp, index)
    if not exact and any(str(dt) == "float32" for dt in list(fg.dtypes) + list(fe.dtypes)):
        rtol = max(rtol, 1e-5)  # single-precision data: summation order shows at ~1e-7
    if kg == "frame" and dg["columns"] != de["columns"]:
        cg = dg["columns"]
        sym = "duplicate-column-labels" if len(set(map(repr, cg))) != len(cg) and len(set(map(repr, de["columns"]))) == len(de["columns"]) else "column-labels"
        return {"symptom": sym, "got": cg, "exp": de["columns"]}
    if names:
        if kg in ("series", "index") and dg["name"] != de["name"] and not (_isnan(dg["name"]) and _isnan(de["name"])):
            return {"symptom": "name", "got": dg["name"], "exp": de["name"]}
        if index and kg != "index" and dg.get("index_names") != de.get("index_names"):
            return {"symptom": "index-name", "got": dg.get("index_names"), "exp": de.get("index_names")}
    if fg.shape[1] != fe.shape[1]:
        return {"symptom": "column-count", "got": fg.shape[1], "exp": fe.shape[1]}
    if len(fg) != len(fe):
        return {"symptom": "fewer-rows" if len(fg) < len(fe) else "more-rows", "got": len(fg), "exp": len(fe)}
    rg, re_ = rows_of(fg), rows_of(fe)
    if not order:
        rg = sorted(rg, key=lambda r: tuple(_sortkey(v) for v in r))
        re_ = sorted(re_, key=lambda r: tuple(_sortkey(v) for v in r))
    for i, (a, b) in enumerate(zip(rg, re_)):
        if not all(val_eq(x, y, exact, rtol) for x, y in zip(a, b)):
            nidx = sum(1 for c in fg.columns if str(c).startswith("__i"))
            where = [j for j, (x, y) in enumerate(zip(a, b)) if not val_eq(x, y, exact, rtol)]
            sym = "index-labels" if all(j < nidx for j in where) else "values"
            if not order:
                sym = "rows" if sym == "values" else sym
            return {"symptom": sym, "row": i, "got": repr(a)[:200], "exp": repr(b)[:200], "ordered": order}
    if dtypes:
        for j in range(fg.shape[1]):
            if str(fg.columns[j]).startswith("__i"):
                continue  # equal index labels were already compared by value; their dtype is the schema audit's matter (C07)
            a, b = dkind(fg.iloc[:, j].dtype), dkind(fe.iloc[:, j].dtype)
            if a != b and not _promotion_ok(a, b, fg.iloc[:, j], fe.iloc[:, j]):
                return {"symptom": "dtype-kind", "col": str(fg.columns[j]), "got": str(fg.iloc[:, j].dtype), "exp": str(fe.iloc[:, j].dtype)}
    return None


def _promotion_ok(a, b, sa, sb):
    """int/bool <-> float/object accepted only when the data really has missing values (or is empty);
    categorical vs object accepted (categorical-ness is checked by the schema audit, C07)."""
    if len(sa) == 0:
        return True
    if {a, b} <= {"i", "b", "f", "O"} and (sa.isna().any() or sb.isna().any()):
        return True
    if {a, b} == {"C", "O"}:
        return True
    return False


def _isnan(x):
    try:
        return x is None or (isinstance(x, float) and math.isnan(x))
    except Exception:
        return False


def _unwrap(x):
    if isinstance(x, np.generic):
        return x.item()
    return x
