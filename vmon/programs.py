"""Typed random generator of query programs over the public DataFrame API, with a pandas interpreter.

A program is a JSON-serialisable dict:
  {"tables": [table specs], "sources": [{"table": i, "layout": {...}}], "steps": [{"op", "in": [value ids], "p": {...}}], "out": id}
Value ids: 0..len(sources)-1 are the sources, then one per step.  Any earlier value may feed several later steps.

The same `apply` functions run on pandas objects (lib="pd") and on dask-expr collections (lib="dx").
Each pandas value carries semantic flags the comparator obeys:
  order : row order is defined by the query (and equals pandas' order)
  index : index labels are defined by the query
Operators with needs_order / needs_index are only generated on values whose flag is True.
"""
import numpy as np
import pandas as pd

from vmon.compare import kind_of
from vmon.util import derive_rng, shash

import os as _os

W2_PROB = float(_os.environ.get("VMON_W2_PROB", "0.0"))  # second-wave operators: enabled once vetted (DESIGN.md 10.6)
W2_SALT = 0

NUM_KINDS = "iuf"


class Val:
    __slots__ = ("pd", "order", "index", "src")

    def __init__(self, pdv, order=True, index=True, src=()):
        self.pd, self.order, self.index, self.src = pdv, order, index, frozenset(src)

    @property
    def kind(self):
        return kind_of(self.pd)


# ---------------------------------------------------------------------------------------------
# small series-expression language used inside assign / filter / where
# ---------------------------------------------------------------------------------------------


def numcols(df, allow_bool=False):
    out = []
    for c in df.columns:
        dt = df[c].dtype
        k = getattr(dt, "kind", "O")
        if k in NUM_KINDS and not isinstance(dt, pd.CategoricalDtype):
            out.append(c)
        elif allow_bool and k == "b":
            out.append(c)
    return out


def cols_of_kind(df, kinds):
    out = []
    for c in df.columns:
        dt = df[c].dtype
        if isinstance(dt, pd.CategoricalDtype):
            k = "C"
        elif str(dt) in ("str", "string", "object") or str(dt).startswith("string"):
            k = "O"
        else:
            k = getattr(dt, "kind", "O")
        if k in kinds:
            out.append(c)
    return out


def gen_sexpr(rng, df, depth=0, want="num"):
    """-> spec (nested list).  want: 'num' or 'bool'"""
    nums = numcols(df)
    if want == "bool":
        r = rng.random()
        bools = cols_of_kind(df, "b")
        if r < 0.15 and bools:
            return ["col", rng.choice(bools)]
        if r < 0.25 and bools:
            return ["not", ["col", rng.choice(bools)]]
        if r < 0.40 and depth < 2:
            return [rng.choice(["and", "or"]), gen_sexpr(rng, df, depth + 1, "bool"), gen_sexpr(rng, df, depth + 1, "bool")]
        if r < 0.50:
            c = rng.choice(list(df.columns))
            return [rng.choice(["isna", "notna"]), ["col", c]]
        if r < 0.60:
            strs = cols_of_kind(df, "O")
            if strs:
                c = rng.choice(strs)
                vals = [v for v in df[c].dropna().unique().tolist()][:3] or ["ab"]
                return ["isin", ["col", c], vals[: rng.randrange(1, len(vals) + 1)]]
        if not nums:
            return ["notna", ["col", rng.choice(list(df.columns))]]
        c = rng.choice(nums)
        vals = df[c].dropna()
        thr = float(vals.iloc[rng.randrange(len(vals))]) if len(vals) else 0.0
        if getattr(df[c].dtype, "kind", "i") == "f" and len(vals):
            # a float column may be the product of a reduction (1 ulp apart between plans): cut strictly between two distinct values
            u = sorted(set(float(x) for x in vals.tolist()))
            j = rng.randrange(len(u))
            thr = (u[j] + u[j + 1]) / 2.0 if j + 1 < len(u) else u[j] + 0.5
        if rng.random() < 0.2 and len(nums) > 1:
            return [rng.choice(["lt", "ge"]), ["col", c], ["col", rng.choice([x for x in nums if x != c])]]
        if rng.random() < 0.1:
            return ["gt", ["col", c], ["red", "mean", ["col", c]]]
        if rng.random() < 0.15:
            return ["isin", ["col", c], sorted(set(float(x) for x in vals.iloc[:3].tolist()))]
        if rng.random() < 0.1:
            return ["between", ["col", c], thr - 1, thr + 1]
        return [rng.choice(["gt", "lt", "ge", "le", "eq", "ne"]), ["col", c], ["lit", thr]]
    # numeric
    if not nums:
        return ["lit", 1]
    r = rng.random()
    if depth >= 2 or r < 0.35:
        return ["col", rng.choice(nums)]
    if r < 0.45:
        return ["lit", rng.choice([1, 2, 0.5, -1, 10])]
    if r < 0.80:
        return [rng.choice(["add", "sub", "mul"]), gen_sexpr(rng, df, depth + 1), gen_sexpr(rng, df, depth + 1)]
    if r < 0.86:
        return ["abs", gen_sexpr(rng, df, depth + 1)]
    if r < 0.90:
        return ["fillna", gen_sexpr(rng, df, depth + 1), rng.choice([0, -1, 1.5])]
    if r < 0.94:
        return ["sub", ["col", rng.choice(nums)], ["red", rng.choice(["mean", "min", "max", "sum"]), ["col", rng.choice(nums)]]]
    if r < 0.97:
        return ["where", gen_sexpr(rng, df, depth + 1), gen_sexpr(rng, df, depth + 1, "bool"), rng.choice([0, -1])]
    return ["clip", gen_sexpr(rng, df, depth + 1), -1, 5]


def ev(d, s):
    t = s[0]
    if t == "col":
        return d[s[1]]
    if t == "lit":
        return s[1]
    if t in ("add", "sub", "mul"):
        a, b = ev(d, s[1]), ev(d, s[2])
        return a + b if t == "add" else (a - b if t == "sub" else a * b)
    if t in ("gt", "lt", "ge", "le", "eq", "ne"):
        a, b = ev(d, s[1]), ev(d, s[2])
        return {"gt": lambda: a > b, "lt": lambda: a < b, "ge": lambda: a >= b, "le": lambda: a <= b, "eq": lambda: a == b, "ne": lambda: a != b}[t]()
    if t == "and":
        return ev(d, s[1]) & ev(d, s[2])
    if t == "or":
        return ev(d, s[1]) | ev(d, s[2])
    if t == "not":
        return ~ev(d, s[1])
    if t == "isna":
        return ev(d, s[1]).isna()
    if t == "notna":
        return ev(d, s[1]).notnull()
    if t == "isin":
        return ev(d, s[1]).isin(s[2])
    if t == "between":
        return ev(d, s[1]).between(s[2], s[3])
    if t == "abs":
        return abs(ev(d, s[1]))
    if t == "fillna":
        x = ev(d, s[1])
        return x.fillna(s[2]) if hasattr(x, "fillna") else x
    if t == "clip":
        x = ev(d, s[1])
        return x.clip(s[2], s[3]) if hasattr(x, "clip") else x
    if t == "where":
        x = ev(d, s[1])
        return x.where(ev(d, s[2]), s[3]) if hasattr(x, "where") else x
    if t == "red":
        return getattr(ev(d, s[2]), s[1])()
    raise ValueError(t)


def sexpr_cols(s, out=None):
    out = set() if out is None else out
    if isinstance(s, list):
        if s and s[0] == "col":
            out.add(s[1])
        else:
            for x in s[1:]:
                sexpr_cols(x, out)
    return out


def sexpr_str(s):
    t = s[0]
    sym = {"add": "+", "sub": "-", "mul": "*", "gt": ">", "lt": "<", "ge": ">=", "le": "<=", "eq": "==", "ne": "!=", "and": "&", "or": "|"}
    if t == "col":
        return f"d[{s[1]!r}]"
    if t == "lit":
        return repr(s[1])
    if t in sym:
        return f"({sexpr_str(s[1])} {sym[t]} {sexpr_str(s[2])})"
    if t == "not":
        return f"~{sexpr_str(s[1])}"
    if t == "red":
        return f"{sexpr_str(s[2])}.{s[1]}()"
    if t in ("isna", "notna"):
        return f"{sexpr_str(s[1])}.{'isna' if t == 'isna' else 'notnull'}()"
    if t == "abs":
        return f"abs({sexpr_str(s[1])})"
    return f"{sexpr_str(s[1])}.{t}({', '.join(repr(x) if not isinstance(x, list) or not x or not isinstance(x[0], str) or x[0] not in ('col','lit','add','sub','mul','gt','lt','ge','le','eq','ne','and','or','not','isna','notna','isin','between','abs','fillna','clip','where','red') else sexpr_str(x) for x in s[2:])})"


# ---------------------------------------------------------------------------------------------
# operator catalogue
# ---------------------------------------------------------------------------------------------

OPS = {}


class Op:
    def __init__(self, name, arity, kinds, sample, apply, flags=None, needs_order=False, needs_index=False, weight=1.0, tags=(), src=None):
        self.name, self.arity, self.kinds, self.sample, self.apply = name, arity, kinds, sample, apply
        self.flags, self.needs_order, self.needs_index, self.weight, self.tags = flags, needs_order, needs_index, weight, set(tags)
        self.src = src  # python source template for evidence samples
        OPS[name] = self


def keep(ins, p, res):
    return all(v.order for v in ins), all(v.index for v in ins)


def F(order=None, index=None):
    """flag rule: None keeps the conjunction of the inputs' flags, True/False sets it"""
    def f(ins, p, res):
        o, i = keep(ins, p, res)
        return (o if order is None else order), (i if index is None else index)
    return f


def _pick_cols(rng, df, kmin=1, kmax=None, must=()):
    cols = list(df.columns)
    kmax = kmax or len(cols)
    k = rng.randrange(kmin, min(kmax, len(cols)) + 1)
    sel = rng.sample(cols, k)
    for m in must:
        if m in cols and m not in sel and rng.random() < 0.8:
            sel.append(m)
    return sel


def s_proj_list(rng, ins):
    df = ins[0].pd
    if df.shape[1] < 2:
        return None
    return {"cols": _pick_cols(rng, df, 1, max(1, df.shape[1] - 1), must=("rid",))}


Op("proj_list", 1, ["frame"], s_proj_list, lambda lib, ins, p: ins[0][p["cols"]], weight=2.5, tags=["proj"], src="{0}[{cols!r}]")
Op("proj_scalar", 1, ["frame"], lambda rng, ins: {"col": rng.choice(list(ins[0].pd.columns))}, lambda lib, ins, p: ins[0][p["col"]], weight=1.2, tags=["proj"], src="{0}[{col!r}]")
Op("proj_attr", 1, ["frame"], lambda rng, ins: ({"col": rng.choice([c for c in ins[0].pd.columns if isinstance(c, str) and c.isidentifier()])} if any(isinstance(c, str) and c.isidentifier() for c in ins[0].pd.columns) else None),
   lambda lib, ins, p: getattr(ins[0], p["col"]), weight=0.4, tags=["proj"], src="{0}.{col}")


def s_filter(rng, ins):
    return {"e": gen_sexpr(rng, ins[0].pd, 0, "bool")}


Op("filter", 1, ["frame"], s_filter, lambda lib, ins, p: ins[0][ev(ins[0], p["e"])], weight=3.0, tags=["filter"], src="{0}[<pred>]")


def s_filter_series(rng, ins):
    s = ins[0].pd
    k = getattr(s.dtype, "kind", "O")
    if k not in NUM_KINDS or isinstance(s.dtype, pd.CategoricalDtype) or not len(s.dropna()):
        return None
    u = sorted(set(float(x) for x in s.dropna().tolist()))
    j = rng.randrange(len(u))
    thr = u[j] if k != "f" else ((u[j] + u[j + 1]) / 2.0 if j + 1 < len(u) else u[j] + 0.5)
    return {"op": rng.choice(["gt", "le", "ne"]), "thr": thr}


def a_filter_series(lib, ins, p):
    s = ins[0]
    m = {"gt": s > p["thr"], "le": s <= p["thr"], "ne": s != p["thr"]}[p["op"]]
    return s[m]


Op("filter_series", 1, ["series"], s_filter_series, a_filter_series, weight=0.8, tags=["filter"], src="{0}[{0} {op} {thr}]")


def s_assign(rng, ins):
    df = ins[0].pd
    n = rng.choice([1, 1, 1, 2])
    names = []
    for j in range(n):
        if rng.random() < 0.3 and numcols(df):
            names.append(rng.choice(numcols(df)))  # overwrite
        else:
            names.append(rng.choice(["z1", "z2", "aa", "m"]))
    names = list(dict.fromkeys(names))
    return {"cols": {nm: (gen_sexpr(rng, df) if rng.random() < 0.85 else ["lit", 7]) for nm in names}}


def a_assign(lib, ins, p):
    d = ins[0]
    return d.assign(**{k: ev(d, e) for k, e in p["cols"].items()})


Op("assign", 1, ["frame"], s_assign, a_assign, weight=2.5, tags=["assign"], src="{0}.assign(...)")


def s_assign_chain(rng, ins):
    df = ins[0].pd
    if not numcols(df):
        return None
    c = rng.choice(numcols(df))
    return {"c": c}


def a_assign_chain(lib, ins, p):
    d = ins[0]
    d = d.assign(q1=d[p["c"]] + 1)
    return d.assign(q2=d["q1"] * 2)


Op("assign_chain", 1, ["frame"], s_assign_chain, a_assign_chain, weight=0.6, tags=["assign"], src="{0}.assign(q1={0}[{c!r}]+1).assign(q2=q1*2)")


def s_drop(rng, ins):
    df = ins[0].pd
    if df.shape[1] < 3:
        return None
    return {"cols": rng.sample([c for c in df.columns if c != "rid"], rng.choice([1, 1, 2]))}


Op("drop", 1, ["frame"], s_drop, lambda lib, ins, p: ins[0].drop(columns=p["cols"]), weight=1.0, tags=["proj"], src="{0}.drop(columns={cols!r})")


def s_rename(rng, ins):
    df = ins[0].pd
    cols = [c for c in df.columns if isinstance(c, str)]
    if not cols:
        return None
    sel = rng.sample(cols, min(len(cols), rng.choice([1, 2])))
    return {"map": {c: c.upper() + "_r" for c in sel}}


Op("rename", 1, ["frame"], s_rename, lambda lib, ins, p: ins[0].rename(columns=p["map"]), weight=1.2, tags=["rename"], src="{0}.rename(columns={map!r})")
Op("add_prefix", 1, ["frame"], lambda rng, ins: {"s": rng.choice(["p_", "x"])}, lambda lib, ins, p: ins[0].add_prefix(p["s"]), weight=0.5, tags=["rename"], src="{0}.add_prefix({s!r})")
Op("add_suffix", 1, ["frame"], lambda rng, ins: {"s": rng.choice(["_s", "y"])}, lambda lib, ins, p: ins[0].add_suffix(p["s"]), weight=0.5, tags=["rename"], src="{0}.add_suffix({s!r})")


def s_astype(rng, ins):
    df = ins[0].pd
    ints = cols_of_kind(df, "iu")
    fl = cols_of_kind(df, "f")
    # no float32: single-precision summation order is precision noise, not a property
    cands = [(c, "float64") for c in ints] + [(c, "int64") for c in cols_of_kind(df, "b")] + [(c, "category") for c in cols_of_kind(df, "O")[:1]]
    if not cands:
        return None
    c, t = rng.choice(cands)
    return {"map": {c: t}}


Op("astype", 1, ["frame"], s_astype, lambda lib, ins, p: ins[0].astype(p["map"]), weight=0.8, tags=["elemwise"], src="{0}.astype({map!r})")


def s_fillna_dict(rng, ins):
    df = ins[0].pd
    fl = cols_of_kind(df, "f")
    if not fl:
        return None
    sel = rng.sample(fl, min(len(fl), rng.choice([1, 2])))
    return {"map": {c: rng.choice([0.0, -1.0, 99.0]) for c in sel}}


Op("fillna_dict", 1, ["frame"], s_fillna_dict, lambda lib, ins, p: ins[0].fillna(p["map"]), weight=0.8, tags=["elemwise"], src="{0}.fillna({map!r})")


def s_numsub(rng, ins):
    df = ins[0].pd
    n = numcols(df)
    if not n:
        return None
    return {"cols": rng.sample(n, rng.randrange(1, len(n) + 1))}


def _numsub_op(fn):
    return lambda lib, ins, p: fn(ins[0][p["cols"]], p)


Op("fillna_scalar", 1, ["frame"], lambda rng, ins: (dict(s_numsub(rng, ins), v=rng.choice([0, -1, 2.5])) if s_numsub(rng, ins) else None), _numsub_op(lambda d, p: d.fillna(p["v"])), weight=0.6, tags=["elemwise"], src="{0}[{cols!r}].fillna({v})")
Op("abs", 1, ["frame"], s_numsub, _numsub_op(lambda d, p: d.abs()), weight=0.6, tags=["elemwise"], src="{0}[{cols!r}].abs()")
Op("round", 1, ["frame"], s_numsub, _numsub_op(lambda d, p: d.round(0)), weight=0.3, tags=["elemwise"], src="{0}[{cols!r}].round(0)")
Op("clip", 1, ["frame"], s_numsub, _numsub_op(lambda d, p: d.clip(0, 3)), weight=0.4, tags=["elemwise"], src="{0}[{cols!r}].clip(0, 3)")
Op("add_scalar", 1, ["frame"], lambda rng, ins: (dict(s_numsub(rng, ins), v=rng.choice([1, 2, 0.5]), op=rng.choice(["add", "mul", "sub", "rsub"])) if s_numsub(rng, ins) else None),
   _numsub_op(lambda d, p: {"add": lambda: d + p["v"], "mul": lambda: d * p["v"], "sub": lambda: d - p["v"], "rsub": lambda: p["v"] - d}[p["op"]]()), weight=0.8, tags=["elemwise"], src="{0}[{cols!r}] {op} {v}")
Op("where_frame", 1, ["frame"], lambda rng, ins: (dict(s_numsub(rng, ins), thr=rng.choice([0, 1, 2]), other=rng.choice([0, -5]), mask=rng.random() < 0.4) if s_numsub(rng, ins) else None),
   _numsub_op(lambda d, p: (d.mask(d > p["thr"], p["other"]) if p["mask"] else d.where(d > p["thr"], p["other"]))), weight=0.5, tags=["elemwise"], src="{0}[{cols!r}].where(> {thr}, {other})")
Op("isna_frame", 1, ["frame"], lambda rng, ins: {"neg": rng.random() < 0.5}, lambda lib, ins, p: ins[0].notnull() if p["neg"] else ins[0].isna(), weight=0.3, tags=["elemwise"], src="{0}.isna()")
Op("cmp_scalar", 1, ["frame"], lambda rng, ins: (dict(s_numsub(rng, ins), v=rng.choice([0, 1, 2])) if s_numsub(rng, ins) else None), _numsub_op(lambda d, p: d > p["v"]), weight=0.3, tags=["elemwise"], src="{0}[{cols!r}] > {v}")


def s_dropna(rng, ins):
    df = ins[0].pd
    if rng.random() < 0.5:
        return {"subset": None}
    return {"subset": rng.sample(list(df.columns), 1)}


Op("dropna", 1, ["frame"], s_dropna, lambda lib, ins, p: ins[0].dropna(subset=p["subset"]) if p["subset"] else ins[0].dropna(), weight=0.8, tags=["filter"], src="{0}.dropna(subset={subset!r})")

Op("reset_index_drop", 1, ["frame", "series"], lambda rng, ins: {}, lambda lib, ins, p: ins[0].reset_index(drop=True), flags=F(index=False), weight=0.8, tags=["index"], src="{0}.reset_index(drop=True)")


def s_reset_index(rng, ins):
    v = ins[0]
    name = v.pd.index.name or "index"
    if v.kind == "frame" and name in v.pd.columns:
        return None
    if v.kind == "series" and (v.pd.name is None or v.pd.name == name):
        return None
    return {}


Op("reset_index", 1, ["frame", "series"], s_reset_index, lambda lib, ins, p: ins[0].reset_index(), flags=F(index=False), needs_index=True, weight=0.7, tags=["index"], src="{0}.reset_index()")


def s_set_index(rng, ins):
    df = ins[0].pd
    cands = [c for c in df.columns if c in ("u", "rid", "k", "i", "t", "g") or str(c).startswith(("U_", "RID"))]
    cands = [c for c in cands if not df[c].isna().any()]
    if not cands:
        return None
    c = rng.choice(cands)
    p = {"col": c, "drop": rng.random() < 0.85}
    r = rng.random()
    if r < 0.2:
        p["npartitions"] = rng.choice([1, 2, 4])
    elif r < 0.3 and df[c].is_monotonic_increasing and ins[0].order:
        p["sorted"] = True
    return p


def a_set_index(lib, ins, p):
    if lib == "pd":
        return ins[0].set_index(p["col"], drop=p["drop"]).sort_index(kind="stable") if not p.get("sorted") else ins[0].set_index(p["col"], drop=p["drop"])
    kw = {}
    if "npartitions" in p:
        kw["npartitions"] = p["npartitions"]
    if p.get("sorted"):
        kw["sorted"] = True
    return ins[0].set_index(p["col"], drop=p["drop"], **kw)


def f_set_index(ins, p, res):
    # ordered iff the new index is unique (ties broken arbitrarily otherwise)
    return bool(res.index.is_unique) and True, True


Op("set_index", 1, ["frame"], s_set_index, a_set_index, flags=f_set_index, weight=1.2, tags=["sort", "shuffle"], src="{0}.set_index({col!r}, drop={drop})")


def s_sort_values(rng, ins):
    df = ins[0].pd
    cands = [c for c in df.columns if c in ("u", "rid", "k", "i", "f", "g", "t", "s")]
    if not cands:
        return None
    by = [rng.choice(cands)]
    if rng.random() < 0.4:
        for extra in ("rid", "u"):
            if extra in df.columns and extra not in by:
                by.append(extra)
                break
    return {"by": by, "ascending": rng.random() < 0.7}


def f_sort_values(ins, p, res):
    df = ins[0].pd
    unique = not df.duplicated(subset=p["by"]).any() and not df[p["by"]].isna().any().any()
    return bool(unique), ins[0].index


Op("sort_values", 1, ["frame"], s_sort_values, lambda lib, ins, p: ins[0].sort_values(p["by"], ascending=p["ascending"]), flags=f_sort_values, weight=1.0, tags=["sort", "shuffle"], src="{0}.sort_values({by!r}, ascending={ascending})")


def s_shuffle(rng, ins):
    df = ins[0].pd
    cands = [c for c in df.columns if c in ("k", "i", "s", "c", "f", "u")]
    if not cands:
        return None
    p = {"on": rng.choice(cands)}
    if rng.random() < 0.4:
        p["npartitions"] = rng.choice([1, 2, 3, 5])
    if rng.random() < 0.2:
        p["ignore_index"] = True
    return p


def a_shuffle(lib, ins, p):
    if lib == "pd":
        return ins[0].reset_index(drop=True) if p.get("ignore_index") else ins[0]
    kw = {k: v for k, v in p.items() if k != "on"}
    return ins[0].shuffle(p["on"], **kw)


Op("shuffle", 1, ["frame"], s_shuffle, a_shuffle, flags=lambda ins, p, res: (False, ins[0].index and not p.get("ignore_index")), weight=0.9, tags=["shuffle"], src="{0}.shuffle({on!r}, **<see params>)")


def a_repartition(lib, ins, p):
    if lib == "pd":
        return ins[0]
    return ins[0].repartition(npartitions=p["n"])


Op("repartition", 1, ["frame", "series"], lambda rng, ins: {"n": rng.choice([1, 2, 3, 4, 6])}, a_repartition, weight=0.7, tags=["repartition"], src="{0}.repartition(npartitions={n})")


def a_map_partitions(lib, ins, p):
    fn = MP_FUNCS[p["fn"]]
    if lib == "pd":
        return fn(ins[0])
    return ins[0].map_partitions(fn)


def _mp_double(part):
    nc = [c for c in part.columns if getattr(part[c].dtype, "kind", "O") in "if" and not isinstance(part[c].dtype, pd.CategoricalDtype)]
    return part.assign(**{c: part[c] * 2 for c in nc[:1]})


def _mp_flag(part):
    return part.assign(mpflag=1)


def _mp_rowfilter(part):
    c = [c for c in part.columns if getattr(part[c].dtype, "kind", "O") in "if" and not isinstance(part[c].dtype, pd.CategoricalDtype)]
    if not c:
        return part
    return part[part[c[0]].fillna(0) >= 1]


MP_FUNCS = {"double": _mp_double, "flag": _mp_flag, "rowfilter": _mp_rowfilter}
Op("map_partitions", 1, ["frame"], lambda rng, ins: {"fn": rng.choice(sorted(MP_FUNCS))}, a_map_partitions, weight=0.6, tags=["udf"], src="{0}.map_partitions({fn})")


def s_cum(rng, ins):
    p = s_numsub(rng, ins)
    if not p:
        return None
    p["fn"] = rng.choice(["cumsum", "cumsum", "cummax", "cummin"])
    return p


Op("cumulative", 1, ["frame"], s_cum, _numsub_op(lambda d, p: getattr(d, p["fn"])()), needs_order=True, weight=0.7, tags=["cumulative"], src="{0}[{cols!r}].{fn}()")


def s_shiftlike(rng, ins):
    p = s_numsub(rng, ins)
    if not p:
        return None
    p["fn"] = rng.choice(["shift", "shift", "diff", "ffill", "bfill"])
    p["k"] = rng.choice([1, 1, 2, -1])
    return p


def a_shiftlike(d, p):
    if p["fn"] in ("shift", "diff"):
        return getattr(d, p["fn"])(p["k"])
    return getattr(d, p["fn"])()


Op("shiftlike", 1, ["frame"], s_shiftlike, _numsub_op(a_shiftlike), needs_order=True, weight=0.7, tags=["overlap"], src="{0}[{cols!r}].{fn}({k})")


def s_rolling(rng, ins):
    p = s_numsub(rng, ins)
    if not p:
        return None
    p.update(w=rng.choice([2, 3, 4]), fn=rng.choice(["sum", "mean", "max", "count"]), center=rng.random() < 0.25, minp=rng.choice([None, 1]))
    return p


def a_rolling(d, p):
    return getattr(d.rolling(p["w"], center=p["center"], min_periods=p["minp"]), p["fn"])()


Op("rolling", 1, ["frame"], s_rolling, _numsub_op(a_rolling), needs_order=True, weight=0.5, tags=["overlap"], src="{0}[{cols!r}].rolling({w}).{fn}()")


def a_head(lib, ins, p):
    if lib == "pd":
        return ins[0].head(p["n"])
    return ins[0].head(p["n"], npartitions=-1, compute=False)


Op("head_all", 1, ["frame", "series"], lambda rng, ins: {"n": rng.choice([1, 3, 7, 1000])}, a_head, needs_order=True, weight=0.5, tags=["head"], src="{0}.head({n}, npartitions=-1, compute=False)")


def s_nlargest(rng, ins):
    df = ins[0].pd
    n = numcols(df)
    uniq = [c for c in ("u", "rid") if c in df.columns]
    if not n or not uniq:
        return None
    c = rng.choice(n)
    if df[c].isna().any():
        return None
    return {"n": rng.choice([1, 3, 5]), "cols": list(dict.fromkeys([c, uniq[0]])), "fn": rng.choice(["nlargest", "nsmallest"])}


Op("nlargest", 1, ["frame"], s_nlargest, lambda lib, ins, p: getattr(ins[0], p["fn"])(p["n"], p["cols"]), flags=F(order=True), weight=0.5, tags=["reduction"], src="{0}.{fn}({n}, {cols!r})")


def s_dropdup(rng, ins):
    df = ins[0].pd
    cands = [c for c in df.columns if c in ("i", "k", "b", "s", "c")]
    if not cands:
        return None
    sub = rng.sample(cands, min(len(cands), rng.choice([1, 2])))
    return {"subset": sub}


Op("drop_duplicates", 1, ["frame"], s_dropdup, lambda lib, ins, p: ins[0][p["subset"]].drop_duplicates(), flags=F(order=False, index=False), weight=0.6, tags=["reduction", "shuffle"], src="{0}[{subset!r}].drop_duplicates()")


def s_loc(rng, ins):
    df = ins[0].pd
    if not df.index.is_monotonic_increasing or not len(df) or getattr(df.index.dtype, "kind", "O") == "b":
        return None
    a, b = sorted([rng.randrange(len(df)), rng.randrange(len(df))])
    lo, hi = df.index[a], df.index[b]
    if isinstance(lo, pd.Timestamp):
        return {"lo": lo.isoformat(), "hi": hi.isoformat(), "ts": True}
    if isinstance(lo, (np.integer,)):
        lo, hi = int(lo), int(hi)
    elif isinstance(lo, (np.floating,)):
        lo, hi = float(lo), float(hi)
    return {"lo": lo, "hi": hi}


def a_loc(lib, ins, p):
    lo, hi = p["lo"], p["hi"]
    if p.get("ts"):
        lo, hi = pd.Timestamp(lo), pd.Timestamp(hi)
    return ins[0].loc[lo:hi]


Op("loc_slice", 1, ["frame", "series"], s_loc, a_loc, needs_index=True, needs_order=True, weight=0.5, tags=["index"], src="{0}.loc[{lo!r}:{hi!r}]")

# ---- reductions ---------------------------------------------------------------------------------


def s_reduce_frame(rng, ins):
    p = s_numsub(rng, ins)
    if not p:
        return None
    p["fn"] = rng.choice(["sum", "mean", "min", "max", "count", "std", "var", "prod" if False else "sum"])
    if rng.random() < 0.3:
        p["split_every"] = rng.choice([2, 3])
    return p


def a_reduce_frame(lib, ins, p):
    d = ins[0][p["cols"]]
    if lib == "dx" and "split_every" in p:
        return getattr(d, p["fn"])(split_every=p["split_every"])
    return getattr(d, p["fn"])()


Op("reduce_frame", 1, ["frame"], s_reduce_frame, a_reduce_frame, flags=F(order=True, index=True), weight=1.0, tags=["reduction"], src="{0}[{cols!r}].{fn}()")


def s_reduce_series(rng, ins):
    s = ins[0].pd
    k = getattr(s.dtype, "kind", "O")
    if isinstance(s.dtype, pd.CategoricalDtype):
        return {"fn": rng.choice(["count", "nunique"])}
    if k in NUM_KINDS:
        return {"fn": rng.choice(["sum", "mean", "min", "max", "count", "std", "nunique", "size"])}
    if k == "b":
        return {"fn": rng.choice(["sum", "any", "all", "count"])}
    if k == "M":
        return {"fn": rng.choice(["min", "max", "count", "nunique"])}
    return {"fn": rng.choice(["count", "nunique", "size"])}


def a_reduce_series(lib, ins, p):
    if p["fn"] == "size":
        return ins[0].size
    return getattr(ins[0], p["fn"])()


Op("reduce_series", 1, ["series"], s_reduce_series, a_reduce_series, flags=F(order=True, index=True), weight=1.5, tags=["reduction"], src="{0}.{fn}()")
def _exact_keys(s):
    """float keys must be exact (multiples of 1/4096): a key that is the product of a reduction may differ by 1 ulp between
    pandas' single pass and dask's tree combination, which turns precision noise into different groups"""
    if getattr(s.dtype, "kind", "O") != "f":
        return True
    v = s.dropna().to_numpy()
    return bool(((v * 4096) % 1 == 0).all())


Op("value_counts", 1, ["series"], lambda rng, ins: ({} if not isinstance(ins[0].pd.dtype, pd.CategoricalDtype) and _exact_keys(ins[0].pd) else None), lambda lib, ins, p: ins[0].value_counts(), flags=F(order=False, index=True), weight=0.7, tags=["reduction"], src="{0}.value_counts()")
Op("unique", 1, ["series"], lambda rng, ins: ({} if not isinstance(ins[0].pd.dtype, pd.CategoricalDtype) and _exact_keys(ins[0].pd) else None), lambda lib, ins, p: (pd.Series(ins[0].unique(), name=ins[0].name) if lib == "pd" else ins[0].unique()), flags=F(order=False, index=False), weight=0.5, tags=["reduction"], src="{0}.unique()")


def s_groupby(rng, ins):
    df = ins[0].pd
    keys = [c for c in df.columns if c in ("k", "i", "s", "b", "c")]
    vals = [c for c in numcols(df) if c not in ("k", "i")]
    if not keys or not vals:
        return None
    by = rng.sample(keys, 1 if rng.random() < 0.75 else min(2, len(keys)))
    style = rng.choice(["col", "col", "dict", "frame", "list"])
    fns = ["sum", "mean", "min", "max", "count", "size", "std", "var", "nunique", "median"]
    p = {"by": by, "style": style, "observed": True}
    if style == "col":
        p["col"] = rng.choice(vals)
        p["fn"] = rng.choice(fns + ["first", "last"] if ins[0].order else fns)
    elif style == "dict":
        sel = rng.sample(vals, min(len(vals), 2))
        p["spec"] = {c: rng.choice(["sum", "mean", "min", "max", "count"]) for c in sel}
    elif style == "list":
        p["col"] = rng.choice(vals)
        p["fns"] = rng.sample(["sum", "mean", "min", "max", "count"], 2)
    else:
        p["fn"] = rng.choice(["sum", "mean", "min", "max", "count"])
        p["cols"] = rng.sample(vals, rng.randrange(1, len(vals) + 1))
    r = rng.random()
    if r < 0.2:
        p["split_out"] = rng.choice([2, 3])
    elif r < 0.35:
        p["split_every"] = 2
    if rng.random() < 0.15:
        p["sort"] = False
    return p


def a_groupby(lib, ins, p):
    d = ins[0]
    gkw = {"observed": True}
    if "sort" in p:
        gkw["sort"] = p["sort"]
    by = p["by"] if len(p["by"]) > 1 else p["by"][0]
    kw = {}
    if lib == "dx":
        for k in ("split_out", "split_every"):
            if k in p:
                kw[k] = p[k]
    st = p["style"]
    if st == "col":
        g = d.groupby(by, **gkw)[p["col"]]
        if p["fn"] in ("sum", "mean", "min", "max", "count", "size", "std", "var"):
            return getattr(g, p["fn"])(**kw)
        return getattr(g, p["fn"])()
    if st == "dict":
        return d.groupby(by, **gkw).agg(p["spec"], **kw)
    if st == "list":
        return d.groupby(by, **gkw)[p["col"]].agg(p["fns"], **kw)
    return getattr(d.groupby(by, **gkw)[p["cols"]], p["fn"])(**kw)


Op("groupby_agg", 1, ["frame"], s_groupby, a_groupby, flags=F(order=False, index=True), weight=2.0, tags=["groupby", "reduction"], src="{0}.groupby({by!r})...")


def s_gb_transform(rng, ins):
    df = ins[0].pd
    keys = [c for c in df.columns if c in ("k", "i", "b")]
    vals = [c for c in numcols(df) if c not in ("k", "i")]
    if not keys or not vals:
        return None
    kind = rng.choice(["cumsum", "cumcount", "transform", "apply"])
    if kind in ("cumsum", "cumcount") and not ins[0].order:
        kind = "transform"
    return {"by": rng.choice(keys), "col": rng.choice(vals), "kind": kind}


def _gb_apply_fn(g):
    return g.max() - g.min()


def a_gb_transform(lib, ins, p):
    g = ins[0].groupby(p["by"])[p["col"]]
    if p["kind"] == "cumsum":
        return g.cumsum()
    if p["kind"] == "cumcount":
        return g.cumcount()
    # no user meta: an inaccurate meta (dtype or index name) makes empty partitions carry the stand-in's schema,
    # which is the user's assertion, not dask-expr's (two triaged false alarms); dask-expr infers the meta itself
    if p["kind"] == "transform":
        return g.transform("sum")
    return g.apply(_gb_apply_fn)


def f_gb_transform(ins, p, res):
    if p["kind"] in ("cumsum", "cumcount"):
        return ins[0].order, ins[0].index
    if p["kind"] == "transform":
        return False, ins[0].index
    return False, True


Op("groupby_transform", 1, ["frame"], s_gb_transform, a_gb_transform, flags=f_gb_transform, weight=0.8, tags=["groupby", "shuffle"], src="{0}.groupby({by!r})[{col!r}].{kind}()")

# ---- series ops -------------------------------------------------------------------------------------

Op("to_frame", 1, ["series"], lambda rng, ins: ({} if ins[0].pd.name is not None else {"name": "v"}), lambda lib, ins, p: ins[0].to_frame(**p), weight=1.0, tags=["elemwise"], src="{0}.to_frame()")


def s_series_elem(rng, ins):
    s = ins[0].pd
    k = getattr(s.dtype, "kind", "O")
    if isinstance(s.dtype, pd.CategoricalDtype):
        return {"fn": rng.choice(["isna", "astype_str"])}
    if k in NUM_KINDS:
        return {"fn": rng.choice(["add1", "mul2", "abs", "isna", "fillna0", "clip", "between", "isin", "round", "gt", "neg", "astype_f", "map"])}
    if k == "b":
        return {"fn": rng.choice(["not", "astype_i", "isna"])}
    if k == "M":
        return {"fn": rng.choice(["dt_year", "dt_dow", "isna", "dt_floor"])}
    return {"fn": rng.choice(["str_upper", "str_len", "isna", "fillna_s", "isin_s", "eq_s"])}


def a_series_elem(lib, ins, p):
    s = ins[0]
    fn = p["fn"]
    return {
        "add1": lambda: s + 1, "mul2": lambda: s * 2, "abs": lambda: s.abs(), "isna": lambda: s.isna(), "fillna0": lambda: s.fillna(0), "clip": lambda: s.clip(0, 3),
        "between": lambda: s.between(1, 3), "isin": lambda: s.isin([0, 1, 2.5]), "round": lambda: s.round(), "gt": lambda: s > 1, "neg": lambda: -s, "astype_f": lambda: s.astype("float64"),
        "map": lambda: s.map({0: 10, 1: 11, 2: 12}) if lib == "pd" else s.map({0: 10, 1: 11, 2: 12}, meta=(s.name, "f8")),
        "not": lambda: ~s, "astype_i": lambda: s.astype("int64"), "dt_year": lambda: s.dt.year, "dt_dow": lambda: s.dt.dayofweek, "dt_floor": lambda: s.dt.floor("7D"),
        "str_upper": lambda: s.str.upper(), "str_len": lambda: s.str.len(), "fillna_s": lambda: s.fillna("zz"), "isin_s": lambda: s.isin(["ab", "x"]), "eq_s": lambda: s == "ab", "astype_str": lambda: s.astype("str").str.upper(),
    }[fn]()


Op("series_elem", 1, ["series"], s_series_elem, a_series_elem, weight=2.0, tags=["elemwise"], src="{0}.<{fn}>")


def s_series_order(rng, ins):
    s = ins[0].pd
    if getattr(s.dtype, "kind", "O") not in NUM_KINDS or isinstance(s.dtype, pd.CategoricalDtype):
        return None
    return {"fn": rng.choice(["cumsum", "shift", "diff", "ffill", "cummax", "rolling"])}


def a_series_order(lib, ins, p):
    s = ins[0]
    if p["fn"] == "rolling":
        return s.rolling(3, min_periods=1).sum()
    if p["fn"] in ("shift", "diff"):
        return getattr(s, p["fn"])(1)
    return getattr(s, p["fn"])()


Op("series_order", 1, ["series"], s_series_order, a_series_order, needs_order=True, weight=0.8, tags=["cumulative", "overlap"], src="{0}.{fn}()")
Op("index_of", 1, ["frame", "series"], lambda rng, ins: {}, lambda lib, ins, p: ins[0].index, needs_index=True, weight=0.3, tags=["index"], src="{0}.index")
Op("index_to_series", 1, ["index"], lambda rng, ins: ({} if not isinstance(ins[0].pd, pd.MultiIndex) else None), lambda lib, ins, p: ins[0].to_series(), weight=2.0, tags=["index"], src="{0}.to_series()")
Op("index_reduce", 1, ["index"], lambda rng, ins: ({"fn": rng.choice(["min", "max", "nunique"])} if not isinstance(ins[0].pd, pd.MultiIndex) else None), lambda lib, ins, p: getattr(ins[0], p["fn"])(), flags=F(order=True, index=True), weight=1.0, tags=["index", "reduction"], src="{0}.{fn}()")

# ---- binary ops between values ----------------------------------------------------------------------


def s_binop_series(rng, ins):
    a, b = ins[0].pd, ins[1].pd
    for s in (a, b):
        if getattr(s.dtype, "kind", "O") not in NUM_KINDS + "b" or isinstance(s.dtype, pd.CategoricalDtype):
            return None
    if not (a.index.is_unique and b.index.is_unique):
        return None
    return {"op": rng.choice(["add", "sub", "mul", "gt"])}


def a_binop(lib, ins, p):
    a, b = ins
    return {"add": lambda: a + b, "sub": lambda: a - b, "mul": lambda: a * b, "gt": lambda: a > b}[p["op"]]()


def f_binop(ins, p, res):
    # operands with unknown divisions are aligned by a hash shuffle: the row SET is pandas', the order is not defined
    return False, True


Op("binop_series", 2, ["series", "series"], s_binop_series, a_binop, flags=f_binop, needs_index=True, weight=1.0, tags=["align", "elemwise"], src="{0} {op} {1}")


def s_assign_from(rng, ins):
    a, b = ins[0].pd, ins[1].pd
    if not (a.index.is_unique and b.index.is_unique) or not a.index.equals(b.index):
        return None  # differently ranged operands hit a listed C02 finding; C02 judges those
    return {"name": rng.choice(["oth", "z1"])}


Op("assign_from_other", 2, ["frame", "series"], s_assign_from, lambda lib, ins, p: ins[0].assign(**{p["name"]: ins[1]}), flags=F(order=False), needs_index=True, weight=0.8, tags=["align", "assign"], src="{0}.assign({name}={1})")


def s_filter_by_other(rng, ins):
    a, b = ins[0].pd, ins[1].pd
    if getattr(b.dtype, "kind", "O") != "b" or not a.index.equals(b.index) or not a.index.is_unique:
        return None
    return {}


Op("filter_by_other", 2, ["frame", "series"], s_filter_by_other, lambda lib, ins, p: ins[0][ins[1]], flags=F(order=False), needs_index=True, weight=0.6, tags=["align", "filter"], src="{0}[{1}]")


def s_concat(rng, ins):
    a, b = ins[0].pd, ins[1].pd
    # axis=1 joins on index labels: only defined when both inputs' labels are (a reset_index restarts per partition)
    if ins[0].index and ins[1].index and p_axis1_ok(a, b) and rng.random() < 0.3:
        return {"axis": 1}
    if list(a.columns) != list(b.columns) and rng.random() < 0.5:
        return None
    return {"axis": 0, "join": rng.choice(["outer", "outer", "inner"])}


def p_axis1_ok(a, b):
    return a.index.is_unique and b.index.is_unique and a.index.equals(b.index) and not (set(a.columns) & set(b.columns))


def a_concat(lib, ins, p):
    if lib == "pd":
        return pd.concat(list(ins), axis=p["axis"], **({"join": p["join"]} if "join" in p else {}))
    import dask_expr as dx

    return dx.concat(list(ins), axis=p["axis"], **({"join": p["join"]} if "join" in p else {}))


def f_concat(ins, p, res):
    if p["axis"] == 1:
        return ins[0].order and ins[1].order, ins[0].index and ins[1].index
    return False, ins[0].index and ins[1].index


Op("concat", 2, ["frame", "frame"], s_concat, a_concat, flags=f_concat, weight=1.0, tags=["concat"], src="concat([{0}, {1}], axis={axis})")


def s_merge(rng, ins):
    a, b = ins[0].pd, ins[1].pd
    common = [c for c in a.columns if c in b.columns and c in ("k", "i", "s", "u", "rid", "b")]
    if not common:
        return None
    on = [rng.choice(common)]
    if rng.random() < 0.2 and len(common) > 1:
        on = rng.sample(common, 2)
    if len(a.merge(b, on=on, how="outer")) > 400:
        return None
    p = {"on": on, "how": rng.choice(["inner", "inner", "left", "right", "outer"])}
    r = rng.random()
    if r < 0.15:
        p["broadcast"] = True
    elif r < 0.3:
        p["broadcast"] = False
    if rng.random() < 0.15:
        p["npartitions"] = rng.choice([1, 2, 4])
    if rng.random() < 0.15:
        p["suffixes"] = ["_l", "_r"]
    return p


def a_merge(lib, ins, p):
    kw = {"on": p["on"] if len(p["on"]) > 1 else p["on"][0], "how": p["how"]}
    if "suffixes" in p:
        kw["suffixes"] = tuple(p["suffixes"])
    if lib == "dx":
        for k in ("broadcast", "npartitions"):
            if k in p:
                kw[k] = p[k]
    return ins[0].merge(ins[1], **kw)


Op("merge", 2, ["frame", "frame"], s_merge, a_merge, flags=F(order=False, index=False), weight=2.0, tags=["merge", "shuffle"], src="{0}.merge({1}, on={on!r}, how={how!r})")


def s_merge_index(rng, ins):
    a, b = ins[0].pd, ins[1].pd
    if set(a.columns) & set(b.columns):
        return None
    if a.index.dtype != b.index.dtype or a.index.has_duplicates and b.index.has_duplicates:
        return None
    return {"how": rng.choice(["inner", "left", "outer"])}


Op("merge_index", 2, ["frame", "frame"], s_merge_index, lambda lib, ins, p: ins[0].merge(ins[1], left_index=True, right_index=True, how=p["how"]), flags=F(order=False, index=True), needs_index=True, weight=0.8, tags=["merge", "align"], src="{0}.merge({1}, left_index=True, right_index=True, how={how!r})")


def s_isin_other(rng, ins):
    # semi-join style: a[a.k.isin(<values computed from b>)] is not lazily expressible; use merge leftsemi instead
    a, b = ins[0].pd, ins[1].pd
    common = [c for c in a.columns if c in b.columns and c in ("k", "i", "s", "u", "rid")]
    if not common:
        return None
    return {"on": rng.choice(common)}


def a_leftsemi(lib, ins, p):
    if lib == "pd":
        return ins[0][ins[0][p["on"]].isin(ins[1][p["on"]].dropna()) & ins[0][p["on"]].notna()] if False else ins[0].merge(ins[1][[p["on"]]].drop_duplicates(), on=p["on"], how="inner")
    return ins[0].merge(ins[1], on=p["on"], how="leftsemi")


Op("merge_leftsemi", 2, ["frame", "frame"], s_isin_other, a_leftsemi, flags=F(order=False, index=False), weight=0.5, tags=["merge", "shuffle"], src="{0}.merge({1}, on={on!r}, how='leftsemi')")

# ---- dask-only structural no-ops (identity in pandas) ----------------------------------------------


def a_persist(lib, ins, p):
    return ins[0] if lib == "pd" else ins[0].persist(scheduler="sync")


Op("persist", 1, ["frame", "series"], lambda rng, ins: {}, a_persist, weight=0.25, tags=["cut"], src="{0}.persist()")


def a_optimize_mid(lib, ins, p):
    # an already optimized (possibly fused) collection used as an operand of further operations
    return ins[0] if lib == "pd" else ins[0].optimize(fuse=p.get("fuse", True))


Op("optimize_mid", 1, ["frame", "series"], lambda rng, ins: {"fuse": rng.random() < 0.8}, a_optimize_mid, weight=0.3, tags=["cut", "preoptimized"], src="{0}.optimize(fuse={fuse})")


# ---------------------------------------------------------------------------------------------
# profiles: op-weight multipliers by tag
# ---------------------------------------------------------------------------------------------

PROFILES = {
    "default": {},
    "projection": {"proj": 3.0, "rename": 2.5, "assign": 1.5, "merge": 1.5, "groupby": 1.5, "sort": 1.2, "concat": 1.5, "cumulative": 1.2, "overlap": 1.2},
    "filter": {"filter": 3.0, "merge": 1.5, "sort": 1.5, "shuffle": 1.3, "repartition": 1.5, "index": 1.5},
    "blockwise": {"elemwise": 3.0, "assign": 2.5, "filter": 2.0, "proj": 2.0, "align": 2.0, "rename": 1.5, "udf": 2.0, "shuffle": 0.4, "reduction": 0.5, "merge": 0.5, "preoptimized": 4.0},
    "structure": {"sort": 2.5, "shuffle": 1.5, "repartition": 2.5, "index": 2.5, "concat": 2.0, "merge": 1.5, "head": 2.0, "cumulative": 1.5},
    "planner_state": {"sort": 4.0, "repartition": 2.0, "merge": 1.5, "groupby": 1.0},
    "noshuffle": {"shuffle": 0.0, "sort": 0.0, "merge": 0.3, "groupby": 0.5},
}


def op_weight(op, profile):
    w = op.weight
    mult = PROFILES.get(profile, {})
    for t in op.tags:
        if t in mult:
            w *= mult[t]
    return w


# ---------------------------------------------------------------------------------------------
# evaluation
# ---------------------------------------------------------------------------------------------


def apply_step(lib, step, values):
    op = OPS[step["op"]]
    ins = [values[i] for i in step["in"]]
    return op.apply(lib, ins, step["p"])


def step_flags(step, in_vals, res):
    op = OPS[step["op"]]
    if op.flags is not None:
        o, i = op.flags(in_vals, step["p"], res)
    else:
        o, i = keep(in_vals, step["p"], res)
    return bool(o), bool(i)


def eval_pandas(prog, source_frames):
    """-> list of Val for every value id (sources first).  Raises if pandas refuses."""
    vals = [Val(df, True, True, src=[i]) for i, df in enumerate(source_frames)]
    for st in prog["steps"]:
        ins = [vals[i] for i in st["in"]]
        res = OPS[st["op"]].apply("pd", [v.pd for v in ins], st["p"])
        o, ix = step_flags(st, ins, res)
        vals.append(Val(res, o, ix, src=set().union(*[v.src for v in ins])))
    return vals


def eval_dask(prog, source_colls):
    vals = list(source_colls)
    for st in prog["steps"]:
        vals.append(OPS[st["op"]].apply("dx", [vals[i] for i in st["in"]], st["p"]))
    return vals


def program_ops(prog):
    return [st["op"] for st in prog["steps"]]


def program_source(prog):
    lines = []
    ns = len(prog["sources"])
    for i, s in enumerate(prog["sources"]):
        lines.append(f"v{i} = source(table={prog['tables'][s['table']]}, layout={s['layout']})")
    for j, st in enumerate(prog["steps"]):
        op = OPS[st["op"]]
        args = [f"v{i}" for i in st["in"]]
        try:
            txt = (op.src or st["op"]).format(*args, **{k: v for k, v in st["p"].items()})
        except Exception:
            txt = f"{st['op']}({', '.join(args)}, {st['p']})"
        if st["op"] in ("filter",):
            txt = f"{args[0]}[{sexpr_str(st['p']['e']).replace('d[', args[0] + '[')}]"
        if st["op"] == "assign":
            txt = f"{args[0]}.assign(" + ", ".join(f"{k}={sexpr_str(e).replace('d[', args[0] + '[')}" for k, e in st["p"]["cols"].items()) + ")"
        lines.append(f"v{ns + j} = {txt}")
    lines.append(f"result = v{prog['out']}")
    return lines


# ---------------------------------------------------------------------------------------------
# generation
# ---------------------------------------------------------------------------------------------


def gen_program(rng, source_frames, nsteps=None, profile="default", exclude_tags=(), require_frame_out=False, max_tries=40):
    """Generate steps over already-built pandas source frames (the concatenation of each dask source's own
    partitions).  Returns (steps, vals).  Programs are built incrementally with the pandas interpreter so every
    generated step is type-correct for pandas; dask build failures are handled (and counted) by the caller."""
    vals = [Val(df, True, True, src=[i]) for i, df in enumerate(source_frames)]
    steps = []
    nsteps = nsteps or rng.choice([1, 2, 2, 3, 3, 4, 5, 6, 8])
    names = sorted(n for n in OPS if "w2" not in OPS[n].tags)
    names2 = sorted(n for n in OPS if "w2" in OPS[n].tags)
    tries = 0
    while len(steps) < nsteps and tries < max_tries * nsteps:
        tries += 1
        # second-wave operators are drawn from a separate content-derived stream: a program without any of them
        # is generated exactly as before they existed
        r2 = derive_rng("w2", W2_SALT, shash(steps), tries, nsteps)
        if names2 and r2.random() < W2_PROB:
            weights2 = [0.0 if (OPS[n].tags & set(exclude_tags)) else op_weight(OPS[n], profile) for n in names2]
            op = OPS[r2.choices(names2, weights2)[0]] if any(weights2) else None
        else:
            op = None
        main_rng = rng
        if op is None:
            weights = [0.0 if (OPS[n].tags & set(exclude_tags)) else op_weight(OPS[n], profile) for n in names]
            op = OPS[rng.choices(names, weights)[0]]
        else:
            rng = r2  # the main stream is not consumed by a second-wave attempt
        try:
            st = _try_step(rng, op, vals)
        finally:
            rng = main_rng
        if st is None:
            continue
        st, val = st
        vals.append(val)
        steps.append(st)
    return steps, vals


def _try_step(rng, op, vals):
    if True:
        # choose inputs: bias to the most recent values, but any earlier value may be reused (shared sub-expressions)
        ids = []
        ok = True
        for a in range(op.arity):
            cands = [i for i, v in enumerate(vals) if v.kind in (op.kinds if op.arity == 1 else [op.kinds[a]]) and len_ok(v)]
            if op.needs_order:
                cands = [i for i in cands if vals[i].order]
            if op.needs_index:
                cands = [i for i in cands if vals[i].index]
            if a == 1:
                cands = [i for i in cands if i != ids[0]]
            if not cands:
                ok = False
                break
            w = [1.0 + 3.0 * (i == len(vals) - 1) + 1.0 * (i >= len(vals) - 3) for i in cands]
            ids.append(rng.choices(cands, w)[0])
        if not ok:
            return None
        ins = [vals[i] for i in ids]
        try:
            p = op.sample(rng, ins)
        except Exception:
            p = None
        if p is None:
            return None
        st = {"op": op.name, "in": ids, "p": p}
        try:
            import warnings

            with warnings.catch_warnings():
                warnings.simplefilter("ignore")
                res = op.apply("pd", [v.pd for v in ins], p)
        except Exception:
            return None
        if isinstance(res, (pd.DataFrame,)) and (res.shape[1] == 0 or res.columns.has_duplicates):
            return None
        if isinstance(res, (pd.DataFrame, pd.Series)) and len(res) > 600:
            return None
        o, ix = step_flags(st, ins, res)
        return st, Val(res, o, ix, src=set().union(*[v.src for v in ins]))


def len_ok(v):
    return True


from vmon import programs_w2  # noqa: E402,F401  (registers the second-wave operators)
