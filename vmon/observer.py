"""Fresh-interpreter observer for C15: builds ONE query alone and prints whether its observations equal the ones
recorded during the long session (shipped in the payload)."""
import json
import pickle
import sys
import warnings

warnings.filterwarnings("ignore")


def main():
    from vmon import ensure_repo_on_path

    ensure_repo_on_path()
    from vmon import sessionq
    from vmon.compare import compare

    payload = pickle.load(open(sys.argv[1], "rb"))
    spec = payload["spec"]
    out = {"ok": True, "compared": 0}
    try:
        coll = sessionq.build_query(spec, payload.get("scratch"))
        kinds = sorted({o["kind"] for o in payload["observations"]})
        fresh = sessionq.observe(coll, kinds, spec.get("method"))
        order, index = sessionq.flags_of(spec)
        for o in payload["observations"]:
            k = o["kind"]
            out["compared"] += 1
            if k == "result":
                d = compare(o["value"], fresh[k], order=order, index=index, dtypes=True)
                if d:
                    out = dict(d, ok=False, kind=k, step=o["step"], compared=out["compared"])
                    break
            elif o["value"] != fresh[k]:
                out = {"ok": False, "kind": k, "step": o["step"], "symptom": f"{k}-differs-from-fresh-process", "got": str(o["value"])[:400], "exp": str(fresh[k])[:400], "compared": out["compared"]}
                break
    except Exception as ex:
        import os
        import traceback

        tb = traceback.extract_tb(ex.__traceback__)
        site = next((f"{os.path.basename(fr.filename)}:{fr.name}" for fr in reversed(tb) if "/dask_expr/" in fr.filename), "?")
        out = {"ok": None, "symptom": f"fresh-raises:{type(ex).__name__}", "site": site, "detail": str(ex)[:200]}
    print("OBSERVER " + json.dumps(out, default=str))


if __name__ == "__main__":
    main()
