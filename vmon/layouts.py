"""Turn one pandas table into dask-expr collections with a given physical layout."""
import os

import numpy as np
import pandas as pd


def cut_parts(df, cuts):
    """cuts: sorted positions in [0, n]; repeated positions give empty partitions."""
    bounds = [0] + list(cuts) + [len(df)]
    # copies, not views: dask tokenizes DataFrame blocks through their pickle, and a non-contiguous view pickles
    # differently from its (contiguous) unpickled copy - value-equal parts would get different names in another
    # process (a triaged C16 false alarm caused by the harness, not by dask-expr)
    return [df.iloc[bounds[i]: bounds[i + 1]].copy() for i in range(len(bounds) - 1)]


def _getpart(i, parts=None):
    return parts[i]


def build(df, layout, scratch=None):
    """-> dask-expr collection.  layout dicts:
    {"kind": "from_pandas", "npartitions": k, "sort": bool}
    {"kind": "chunksize", "chunksize": c, "sort": bool}
    {"kind": "cuts", "cuts": [...], "via": "from_map"|"from_delayed", "divisions": "unknown"|"known"}
    {"kind": "clear", "npartitions": k}                      (from_pandas then clear_divisions)
    {"kind": "parquet", "npartitions": k, "fs": "fsspec"|"arrow", "calculate_divisions": bool}
    {"kind": "csv", "npartitions": k}
    """
    import dask
    import dask_expr as dx

    k = layout["kind"]
    if k == "from_pandas":
        return dx.from_pandas(df, npartitions=layout["npartitions"], sort=layout.get("sort", True))
    if k == "chunksize":
        return dx.from_pandas(df, chunksize=layout["chunksize"], sort=layout.get("sort", True))
    if k == "clear":
        return dx.from_pandas(df, npartitions=layout["npartitions"], sort=layout.get("sort", True)).clear_divisions()
    if k == "cuts":
        parts = cut_parts(df, layout["cuts"])
        divisions = None
        if layout.get("divisions") == "known":
            divisions = known_divisions(parts)
        if layout.get("via", "from_map") == "from_map":
            import functools

            kw = {"meta": df.iloc[:0]}
            if divisions is not None:
                kw["divisions"] = divisions
            return dx.from_map(functools.partial(_getpart, parts=parts), list(range(len(parts))), **kw)
        else:
            # pure=True: deterministic key from the content (an impure delayed gets a fresh uuid name at every build)
            dl = [dask.delayed(p, pure=True) for p in parts]
            kw = {"meta": df.iloc[:0]}
            if divisions is not None:
                kw["divisions"] = divisions
            return dx.from_delayed(dl, **kw)
    if k == "parquet":
        from vmon.util import fp

        # the path is a function of the layout and of the table content, so the same program rebuilt in another process
        # (receiver, namer, observer, replay) reads the same dataset and a widened / mutated table gets its own
        path = os.path.join(scratch, f"pq-{layout.get('tag', 0)}-{fp(df)[:12]}")
        if not os.path.exists(path):
            tmp = path + f".tmp{os.getpid()}"
            dx.from_pandas(df, npartitions=layout["npartitions"], sort=layout.get("sort", True)).to_parquet(tmp)
            try:
                os.rename(tmp, path)
            except OSError:
                import shutil

                shutil.rmtree(tmp, ignore_errors=True)
        kw = {}
        if layout.get("fs"):
            kw["filesystem"] = layout["fs"]
        if layout.get("calculate_divisions"):
            kw["calculate_divisions"] = True
        return dx.read_parquet(path, **kw)
    if k == "csv":
        path = os.path.join(scratch, f"csv-{layout.get('tag', 0)}")
        if not os.path.exists(path):
            os.makedirs(path)
            for i, p in enumerate(cut_parts(df, even_cuts(len(df), layout["npartitions"]))):
                p.to_csv(os.path.join(path, f"part-{i:03d}.csv"), index=False)
        return dx.read_csv(os.path.join(path, "part-*.csv"))
    raise ValueError(k)


def even_cuts(n, k):
    return [int(round(i * n / k)) for i in range(1, k)]


def known_divisions(parts):
    """Truthful divisions for sorted-index parts, or None if not expressible (empty parts, duplicates over a border)."""
    divs = []
    for i, p in enumerate(parts):
        if not len(p):
            return None
        divs.append(p.index[0])
    divs.append(parts[-1].index[-1])
    for i in range(len(parts) - 1):
        if not (parts[i].index[-1] < parts[i + 1].index[0]):
            return None
    return tuple(divs)


def random_layout(rng, df, allow_unknown=True, allow_empty=True, allow_files=True):
    n = len(df)
    sorted_idx = df.index.is_monotonic_increasing
    import os

    if allow_files and os.environ.get("VMON_SCRATCH") and rng.random() < 0.12 and df.index.name is not None or (allow_files and os.environ.get("VMON_SCRATCH") and rng.random() < 0.04):
        # file-backed sources: multi-file parquet (both readers; column-projected reads get fused) and csv
        if rng.random() < 0.8:
            return {"kind": "parquet", "npartitions": rng.choice([2, 4, 6, 9]), "fs": rng.choice(["fsspec", "arrow"]), "calculate_divisions": rng.random() < 0.5 and bool(sorted_idx),
                    "sort": bool(sorted_idx), "tag": rng.randrange(10**9)}
    r = rng.random()
    if r < 0.55:
        return {"kind": "from_pandas", "npartitions": rng.choice([1, 2, 3, 3, 4, 5, 7]), "sort": bool(sorted_idx)}
    if r < 0.65:
        return {"kind": "chunksize", "chunksize": rng.choice([3, 5, 8, 13]), "sort": bool(sorted_idx)}
    if r < 0.75 and allow_unknown:
        return {"kind": "clear", "npartitions": rng.choice([1, 2, 3, 5]), "sort": bool(sorted_idx)}
    if not allow_unknown:
        return {"kind": "from_pandas", "npartitions": rng.choice([2, 3, 5]), "sort": bool(sorted_idx)}
    # explicit cuts, possibly with empty partitions
    kparts = rng.choice([2, 3, 4, 6])
    cuts = sorted(rng.randrange(0, n + 1) for _ in range(kparts - 1))
    if not allow_empty:
        cuts = sorted(set(c for c in cuts if 0 < c < n))
    return {"kind": "cuts", "cuts": cuts, "via": rng.choice(["from_map", "from_delayed"]), "divisions": "unknown"}
