"""C10 - execution knobs change performance only, never results.

Events: the same query under two knob settings gives different results (beyond row order / partition layout).
Oracle: the result under default knobs on the same layout, and pandas for the default.
Monitor: the algorithm actually chosen by the planner (classes in the lowered optimized plan), so evidence shows
every algorithm region (tree vs shuffle reduction, broadcast vs hash vs single-partition join, simple vs staged
shuffle, presorted fast path vs quantile partitioning, disk vs tasks) was really observed.
"""
import itertools
import warnings

import dask
import numpy as np
import pandas as pd

from vmon import monitors as M
from vmon import progcase
from vmon.compare import compare
from vmon.execs import concat_parts, exec_ref
from vmon.util import derive_rng

LEVEL = "exploration"
MANIFEST = {
    "text": "A knob grid is run on the real planner: split_every in {False,2,3,4,8,n} x split_out in {1,2,3,True} x shuffle method {tasks,disk} x merge broadcast in {None,True,False,0.1,0.9} x merge/sort/set_index npartitions hints x upsample in {0.5,1,2} x fuse on/off, over reductions, groupby aggregations with 1-3 keys, unique / drop_duplicates / value_counts(normalize), merges of all five kinds with (n_left, n_right) straddling the broadcast threshold and single-partition sides, sort_values / set_index incl. presorted inputs, with 1..33 input partitions (one-row partitions cross the default split_every=8 and max_branch=32 thresholds). Each cell is compared with the default-knob result of the same layout and with pandas; a plan monitor records the algorithm region actually chosen per cell. The grid includes key columns with missing values (value_counts normalize / dropna, groupby dropna, nunique, unique, drop_duplicates, na_position).",
    "note": "Results compared as multisets where row order is a documented non-guarantee (hash joins, shuffles, split_out). p2p shuffle / HashJoinP2P need `distributed` and are out of reach. quick samples the grid by seed, thorough enumerates it.",
    "technique": "runtime monitoring: metamorphic knob grid against the default-knob execution and pandas, with a plan monitor proving each algorithm region was exercised",
    "design_ref": "DESIGN.md section 4, C10",
}
RULE = ("grid cells (query family x knobs x layout); quick = seeded sample, thorough = full grid; non-trivial = the knob changed the lowered plan (plan classes or "
        "partition structure differ from the default-knob plan); distinct by cell")
ASSUMPTIONS = ["row order after hash joins / shuffles / split_out>1 is unspecified"]
CONFIG = {
    "quick": {"budget_s": 55, "cells": 1500, "case_timeout_s": 90},
    "thorough": {"budget_s": 720, "cells": 10**9, "case_timeout_s": 240},
}
REGIONS = ["TreeReduce", "ShuffleReduce", "BroadcastJoin", "BlockwiseMerge+shuffle", "BlockwiseMerge-single-partition", "TaskShuffle", "DiskShuffle", "SetIndexBlockwise-presorted",
           "SetPartition", "SortValuesBlockwise-presorted", "RepartitionToFewer"]


def floors(tier):
    f = {"cases": 500, "nontrivial": 250, "cells_compared": 500, "pandas_compared": 400}
    for r in REGIONS:
        f[f"region:{r}"] = 3
    return f


def setup_worker(tier, seed):
    M.RULES.install()


def table(n, seed):
    r = np.random.RandomState(seed)
    return pd.DataFrame({
        "k1": r.randint(0, 5, n), "k2": r.randint(0, 3, n), "k3": pd.array(r.choice(["a", "b", "c"], n), dtype="str"),
        "x": r.randint(0, 20, n) / 2.0, "y": r.randint(0, 50, n), "u": r.permutation(n), "rid": np.arange(n),
        "ks": np.arange(n) // 3,  # ordered across partitions, runs of equal keys straddle the partition borders (presorted fast path)
    }, index=pd.Index(np.arange(n), name="ix")).assign(**_null_cols(n, seed))


def _null_cols(n, seed):
    # key columns with missing values (drawn from a separate stream so the other columns stay as they were)
    r = np.random.RandomState(seed + 7)
    kn = r.randint(0, 4, n).astype("float64")
    kn[r.rand(n) < 0.25] = np.nan
    sn = np.array(r.choice(["p", "q", "r"], n), dtype=object)
    sn[r.rand(n) < 0.25] = None
    return {"kn": kn, "sn": pd.array(sn, dtype="str")}


def right_table(n, seed):
    r = np.random.RandomState(seed + 99)
    return pd.DataFrame({"k1": r.randint(2, 8, n), "w": r.randint(0, 100, n), "rid_r": np.arange(n) + 1000})


NPARTS = [1, 2, 3, 5, 9, 33]
SE = [None, False, 2, 3, 4, 8]
SO = [None, 1, 2, 3, True]


def grid():
    cells = []
    for npart in NPARTS:
        for se in SE:
            for fn in ("sum", "mean", "var", "min", "count", "nunique_s"):
                cells.append({"fam": "reduce", "fn": fn, "np": npart, "split_every": se})
        for keys in (["k1"], ["k1", "k2"], ["k1", "k2", "k3"]):
            for fn in ("sum", "mean", "var", "nunique", "median", "agg_dict"):
                for se in (None, 2, 3):
                    for so in SO:
                        for method in ("tasks", "disk"):
                            if method == "disk" and so in (None, 1):
                                continue
                            cells.append({"fam": "groupby", "keys": keys, "fn": fn, "np": npart, "split_every": se, "split_out": so, "method": method})
        for fam in ("unique", "drop_duplicates", "value_counts", "value_counts_norm"):
            for se in (None, 2):
                for so in SO:
                    for method in ("tasks", "disk"):
                        if method == "disk" and so in (None, 1):
                            continue
                        cells.append({"fam": fam, "np": npart, "split_every": se, "split_out": so, "method": method})
        for col in ("kn", "sn"):
            for norm in (False, True):
                for dropna in (True, False):
                    for so in SO:
                        for method in ("tasks", "disk"):
                            if method == "disk" and so in (None, 1):
                                continue
                            cells.append({"fam": "value_counts_null", "col": col, "normalize": norm, "dropna": dropna, "np": npart, "split_every": None, "split_out": so, "method": method})
            for fn in ("sum", "count", "nunique"):
                for dropna in (True, False):
                    for so in (None, 1, 2, True):
                        cells.append({"fam": "groupby_nullkey", "col": col, "fn": fn, "dropna": dropna, "np": npart, "split_every": None, "split_out": so, "method": "tasks"})
            for so in (None, 1, 2, True):
                for fam in ("nunique_null", "unique_null", "drop_duplicates_null"):
                    cells.append({"fam": fam, "col": col, "np": npart, "split_every": None, "split_out": so, "method": "tasks"})
        for nap in ("first", "last"):
            for asc in (True, False):
                for hint in (None, 1, 3):
                    for method in ("tasks", "disk"):
                        cells.append({"fam": "sort_values_null", "na_position": nap, "ascending": asc, "np": npart, "npartitions": hint, "method": method})
        for how in ("inner", "left", "right", "outer", "leftsemi"):
            for nr in (1, 2, 5, 9):
                for bc in (None, True, False, 0.1, 0.9):
                    for hint in (None, 1, 4):
                        for method in ("tasks", "disk"):
                            cells.append({"fam": "merge", "how": how, "np": npart, "nr": nr, "broadcast": bc, "npartitions": hint, "method": method})
        for fam in ("sort_values", "set_index"):
            for key in ("u", "k1", "rid", "ks"):
                for hint in (None, 1, 3):
                    for up in (None, 0.5, 2.0):
                        for asc in ((True, False) if fam == "sort_values" else (True,)):
                            for method in ("tasks", "disk"):
                                cells.append({"fam": fam, "key": key, "np": npart, "npartitions": hint, "upsample": up, "ascending": asc, "method": method})
    out = []
    for c in cells:
        for fuse in (True, False):
            out.append(dict(c, fuse=fuse))
    return out


def cases(tier, seed):
    # canary for the listed broadcast-side finding
    yield {"fam": "merge", "how": "left", "np": 9, "nr": 5, "broadcast": True, "npartitions": 4, "method": "tasks", "fuse": True, "seed": seed, "canary": True}
    cells = grid()
    rng = derive_rng("C10grid", seed)
    rng.shuffle(cells)
    for c in cells[: CONFIG[tier]["cells"]]:
        yield dict(c, seed=seed)


def build(case, knobs=True):
    """-> (dask query, pandas expected, order flag, index flag)"""
    import dask_expr as dx

    n = 40 if case["np"] < 33 else 33
    pdf = table(n, 5)
    d = dx.from_pandas(pdf, npartitions=case["np"], sort=False)
    fam = case["fam"]

    def kw(*names):
        if not knobs:
            return {}
        return {k: case[k] for k in names if case.get(k) is not None}

    if fam == "reduce":
        fn = case["fn"]
        if fn == "nunique_s":
            return d.k3.nunique(**kw("split_every")), pdf.k3.nunique(), 1, 1
        return getattr(d[["x", "y"]], fn)(**kw("split_every")), getattr(pdf[["x", "y"]], fn)(), 1, 1
    if fam == "groupby":
        keys = case["keys"]
        by = keys if len(keys) > 1 else keys[0]
        fn = case["fn"]
        k = kw("split_every", "split_out")
        if fn == "agg_dict":
            return d.groupby(by).agg({"x": "sum", "y": "max"}, **k), pdf.groupby(by).agg({"x": "sum", "y": "max"}), 0, 1
        if fn == "median":
            k.pop("split_out", None)
            return d.groupby(by).x.median(**k), pdf.groupby(by).x.median(), 0, 1
        return getattr(d.groupby(by).x, fn)(**k), getattr(pdf.groupby(by).x, fn)(), 0, 1
    if fam == "unique":
        return d.k1.unique(**kw("split_every", "split_out")), pd.Series(pdf.k1.unique(), name="k1"), 0, 0
    if fam == "drop_duplicates":
        return d[["k1", "k2"]].drop_duplicates(**kw("split_every", "split_out")), pdf[["k1", "k2"]].drop_duplicates(), 0, 0
    if fam == "value_counts":
        return d.k1.value_counts(**kw("split_every", "split_out")), pdf.k1.value_counts(), 0, 1
    if fam == "value_counts_norm":
        return d.k1.value_counts(normalize=True, **kw("split_every", "split_out")), pdf.k1.value_counts(normalize=True), 0, 1
    if fam == "value_counts_null":
        c = case["col"]
        return (d[c].value_counts(normalize=case["normalize"], dropna=case["dropna"], **kw("split_every", "split_out")),
                pdf[c].value_counts(normalize=case["normalize"], dropna=case["dropna"]), 0, 1)
    if fam == "groupby_nullkey":
        c, fn = case["col"], case["fn"]
        return (getattr(d.groupby(c, dropna=case["dropna"]).y, fn)(**kw("split_every", "split_out")), getattr(pdf.groupby(c, dropna=case["dropna"]).y, fn)(), 0, 1)
    if fam == "nunique_null":
        return d[case["col"]].nunique(**kw("split_every", "split_out")), pdf[case["col"]].nunique(), 1, 1
    if fam == "unique_null":
        return d[case["col"]].unique(**kw("split_every", "split_out")), pd.Series(pdf[case["col"]].unique(), name=case["col"]), 0, 0
    if fam == "drop_duplicates_null":
        return d[[case["col"], "k2"]].drop_duplicates(**kw("split_every", "split_out")), pdf[[case["col"], "k2"]].drop_duplicates(), 0, 0
    if fam == "sort_values_null":
        # na_position / ascending are part of the query, the npartitions hint is the knob
        q = d.sort_values(["kn", "u"], na_position=case["na_position"], ascending=case["ascending"], **kw("npartitions"))
        return q, pdf.sort_values(["kn", "u"], na_position=case["na_position"], ascending=case["ascending"]), 1, 1
    if fam == "merge":
        rt = right_table(12, 5)
        r = dx.from_pandas(rt, npartitions=case["nr"], sort=False)
        how = case["how"]
        if how == "leftsemi":
            exp = pdf[pdf.k1.isin(rt.k1)]
        else:
            exp = pdf.merge(rt, on="k1", how=how)
        return d.merge(r, on="k1", how=how, **kw("broadcast", "npartitions")), exp, 0, 0
    if fam == "sort_values":
        key = [case["key"]] if case["key"] not in ("k1", "ks") else [case["key"], "u"]
        return d.sort_values(key, **kw("npartitions", "upsample", "ascending")), pdf.sort_values(key, ascending=case.get("ascending", True) if knobs else True), 1, 1
    if fam == "set_index":
        unique = case["key"] not in ("k1", "ks")
        if case["key"] == "ks":
            # a division consumer: loc of the key value that straddles the first partition border
            b0 = int(pdf.ks.iloc[len(pdf) // max(1, case["np"])]) if case["np"] > 1 else 2
            return d.set_index("ks", **kw("npartitions", "upsample")).loc[b0:b0 + 1], pdf.set_index("ks").sort_index(kind="stable").loc[b0:b0 + 1], 0, 1
        return d.set_index(case["key"], **kw("npartitions", "upsample")), pdf.set_index(case["key"]).sort_index(kind="stable"), int(unique), 1
    raise ValueError(fam)


def regions_of(low):
    cls = {type(x).__name__ for x in low.walk()}
    out = set()
    for c in ("TreeReduce", "ShuffleReduce", "BroadcastJoin", "TaskShuffle", "DiskShuffle", "SetPartition", "RepartitionToFewer"):
        if c in cls:
            out.add(c)
    if "SetIndexBlockwise" in cls:
        out.add("SetIndexBlockwise-presorted")
    if "SortValuesBlockwise" in cls:
        out.add("SortValuesBlockwise-presorted")
    if "BlockwiseMerge" in cls:
        out.add("BlockwiseMerge+shuffle" if cls & {"TaskShuffle", "DiskShuffle", "SimpleShuffle"} else "BlockwiseMerge-single-partition")
    return out, cls


def run_case(case):
    counters = {}
    rec = {"status": "ok", "counters": counters, "sets": {}, "nt": []}

    def bump(k, v=1):
        counters[k] = counters.get(k, 0) + v

    method = case.get("method") or "tasks"
    viol = None
    with warnings.catch_warnings():
        warnings.simplefilter("ignore")
        try:
            # default knobs (default shuffle method of this sandbox is used for the default run)
            q0, exp, order, index = build(case, knobs=False)
            low0 = q0.optimize().expr
            r0 = concat_parts(exec_ref(low0))
        except Exception:
            return {"status": "undecided", "counters": {"default_raises": 1}}
        d0 = compare(r0, exp, order=bool(order), index=bool(index), dtypes=False)
        bump("pandas_compared")
        if d0:
            viol = dict(d0, oracle="default_vs_pandas")
        else:
            try:
                with dask.config.set({"dataframe.shuffle.method": method}):
                    q1, exp1, order, index = build(case, knobs=True)
                    M.RULES.reset()
                    low1 = q1.optimize(fuse=case.get("fuse", True)).expr
                    lowered_by = {k[1] for k in M.RULES.snapshot() if k[0] == "_lower"}
                    r1 = concat_parts(exec_ref(low1))
                    r1c = q1.compute(scheduler="sync") if case.get("fuse", True) else None
            except Exception as ex:
                # an explicit refusal of a knob combination is not a wrong result; counted
                bump("knob_refused")
                rec["sets"].setdefault("knob_refusals", []).append(f"{case['fam']}:{type(ex).__name__}:{str(ex)[:50]}")
                return rec
            reg, cls1 = regions_of(low1.lower_completely())
            _, cls0 = regions_of(low0.lower_completely())
            reg |= {c for c in ("ShuffleReduce", "SetPartition") if c in lowered_by}
            for r in reg:
                bump(f"region:{r}")
            bump("cells_compared")
            if cls1 != cls0 or low1.npartitions != low0.npartitions:
                rec["nt"].append(repr(sorted((k, str(v)) for k, v in case.items() if k != "seed")))
            ascending = case.get("ascending", True)
            ref = exp1 if (case["fam"] == "sort_values" and not ascending) else r0
            d = compare(r1, ref, order=bool(order), index=bool(index), dtypes=False)
            if d:
                viol = dict(d, oracle="knobs_vs_default")
            elif r1c is not None:
                d = compare(r1c, ref, order=bool(order), index=bool(index), dtypes=False)
                if d:
                    viol = dict(d, oracle="knobs_compute_vs_default")
            if viol:
                viol["regions"] = sorted(reg)
                if case["fam"] == "merge":
                    bj = [x for x in low1.lower_completely().walk() if type(x).__name__ == "BroadcastJoin"]
                    viol["broadcast_side"] = bj[0].broadcast_side if bj else None
    if viol:
        viol["cell"] = {k: v for k, v in case.items() if k != "seed"}
        viol["ops"] = [case["fam"]]
        viol["how"] = case.get("how")
        viol["has_npartitions_hint"] = case.get("npartitions") is not None
        viol["broadcast"] = case.get("broadcast")
        viol["src"] = [repr(viol["cell"])]
        rec["status"] = "violation"
        rec["viol"] = viol
        rec["case"] = dict(case)
    if case.get("canary"):
        rec["sample"] = {"cell": {k: v for k, v in case.items() if k != "seed"}}
    return rec
