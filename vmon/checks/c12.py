"""C12 - a shuffle is a permutation that co-locates equal keys consistently across frames.

Events: rid multiset of shuffle outputs; (key value -> output partition) maps of each frame.
Oracle: exactly-once over rid; the key->partition relation is a function, identical across
frames with int / float / categorical-of-numbers keys; requested subsets of output partitions
equal the corresponding partitions of the full shuffle.
Workload: exhaustive grid n_in x n_out x max_branch x method (bounded), x key kinds x ignore_index
x partition subsets, plus consumers that rely on co-location (hash merge int-vs-float,
ShuffleReduce via split_out, groupby.apply).
"""
import itertools

import dask
import numpy as np
import pandas as pd

from vmon.execs import exec_graph, graph_of
from vmon.util import derive_rng

LEVEL = "exploration"
MANIFEST = {
    "text": "Exhaustive enumeration of the (n_in, n_out, max_branch, method) grid inside the tier bound (quick 1..6, thorough 1..9 plus wider cells) on the real shuffle code; every cell judged by an exactly-once oracle over unique row ids, a key->partition function oracle, cross-frame (int/float/categorical) consistency, partition-subset equality and pandas-checked consumers. Held = held on the executions observed. The index as key (by name and by on_index), int labels in one frame and float labels in the other, and the consuming join are included.",
    "note": "Trusts pandas (merge/groupby reference), dask's local scheduler, our comparator. p2p shuffle (needs distributed) is out of reach. Rows with NaN keys are only judged for exactly-once.",
    "technique": "runtime monitoring: exhaustive bounded workload grid + offline exactly-once / co-location oracle over recorded shuffle outputs; graph-key monitor proves staged / repartition / disk routes were really taken",
    "design_ref": "DESIGN.md section 4, C12",
}
RULE = ("exhaustive grid over (n_in, n_out, max_branch, method) within the tier bound; per cell every key kind "
        "(int, float+NaN, string+missing, categorical, two columns, index, aligned Series) x ignore_index x partition subsets; "
        "non-trivial = distinct cell whose shuffle really moved rows between partitions (>=2 non-empty outputs or n_in != n_out); "
        "distinct = (cell, key kind, ignore_index)")
ASSUMPTIONS = ["pandas merge/groupby as reference for consumer checks", "p2p shuffle not installed (distributed absent): out of reach",
               "rows with NaN keys are judged for exactly-once only (NaN != NaN, so co-location is not demanded)"]

CONFIG = {
    "quick": {"budget_s": 45, "nmax": 6, "branches": [2, 3, 32], "case_timeout_s": 60},
    "thorough": {"budget_s": 420, "nmax": 9, "branches": [2, 3, 4, 32], "case_timeout_s": 120},
}

KEYS = ["int", "float_nan", "str", "cat", "two", "index", "series"]


def floors(tier):
    return {"cases": 40 if tier == "quick" else 150, "staged_layers": 5, "repartition_routes": 5, "disk_layers": 10,
            "subset_checks": 40, "crossframe_checks": 40, "consumer_checks": 10, "nontrivial": 30}


def cases(tier, seed):
    c = CONFIG[tier]
    for n_in, n_out in itertools.product(range(1, c["nmax"] + 1), repeat=2):
        for mb in c["branches"]:
            for method in ("tasks", "disk"):
                if method == "disk" and mb != c["branches"][0]:
                    continue  # max_branch is ignored by the disk shuffle
                yield {"n_in": n_in, "n_out": n_out, "mb": mb, "method": method, "seed": seed}
    # wider single cells beyond the bound (3 and 4 stages with max_branch=2)
    for n_in, n_out, mb in [(12, 12, 2), (16, 16, 2), (13, 5, 3), (5, 13, 2), (17, 17, 4), (33, 33, 32), (34, 40, 32)] if tier == "thorough" else [(12, 12, 2), (5, 11, 2)]:
        yield {"n_in": n_in, "n_out": n_out, "mb": mb, "method": "tasks", "seed": seed}


def table(seed, n):
    r = np.random.RandomState(seed % 2**31)
    ki = r.randint(0, 12, n)
    kn = ki.astype(float)
    kn[r.rand(n) < 0.15] = np.nan
    ks = np.array(["s%d" % v for v in r.randint(0, 7, n)], dtype=object)
    ks[r.rand(n) < 0.15] = None
    df = pd.DataFrame({
        "ki": ki, "kf": ki.astype(float), "kn": kn, "ks": pd.array(ks, dtype="str"),
        "kc": pd.Categorical(ki, categories=list(range(12))), "v": r.rand(n), "rid": np.arange(n),
    }, index=pd.Index(r.randint(0, 9, n), name="ix"))
    return df


def parts_of(coll, optimize=True):
    e = coll.optimize().expr if optimize else coll.expr
    g, keys, low = graph_of(e)
    return exec_graph(g, keys), g


def run_case(case):
    import dask_expr as dx

    n_in, n_out, mb, method = case["n_in"], case["n_out"], case["mb"], case["method"]
    rng = derive_rng("C12", case["seed"], n_in, n_out, mb, method)
    n = max(30, 3 * n_in)
    pdf = table(rng.randrange(10**6), n)
    counters = {}
    sets = {"cells": [(n_in, n_out, mb, method)]}
    nt = []
    viol = None

    def bump(k, v=1):
        counters[k] = counters.get(k, 0) + v

    with dask.config.set({"dataframe.shuffle.method": method}):
        ddf = dx.from_pandas(pdf, npartitions=n_in, sort=False)
        if ddf.npartitions != n_in:
            return {"status": "undecided", "counters": {"layout_mismatch": 1}}
        part_maps = {}
        for key in KEYS:
            for ignore_index in (False, True):
                if ignore_index and key in ("index",):
                    continue
                kw = dict(npartitions=n_out, ignore_index=ignore_index, max_branch=mb)
                if key == "int":
                    sh = ddf.shuffle("ki", **kw); kcols = ["ki"]
                elif key == "float_nan":
                    sh = ddf.shuffle("kn", **kw); kcols = ["kn"]
                elif key == "str":
                    sh = ddf.shuffle("ks", **kw); kcols = ["ks"]
                elif key == "cat":
                    sh = ddf.shuffle("kc", **kw); kcols = ["kc"]
                elif key == "two":
                    sh = ddf.shuffle(["ki", "ks"], **kw); kcols = ["ki", "ks"]
                elif key == "index":
                    sh = ddf.shuffle(on_index=True, **kw); kcols = None
                elif key == "series":
                    sh = ddf.shuffle(ddf.ki % 5, **kw); kcols = "series"
                try:
                    parts, g = parts_of(sh)
                except Exception as e:
                    viol = viol or {"oracle": "shuffle_runs", "symptom": f"raises:{type(e).__name__}", "detail": str(e)[:200], "key": key, "cell": [n_in, n_out, mb, method]}
                    continue
                bump("shuffles")
                names = {k[0] for k in g if isinstance(k, tuple)}
                if any(isinstance(nm, str) and nm.startswith(("group-stage-", "stage-")) for nm in names):
                    bump("staged_layers")
                if any(isinstance(nm, str) and nm.startswith("repartition-group-") for nm in names):
                    bump("repartition_routes")
                if any(isinstance(nm, str) and nm.startswith("zpartd-") for nm in names):
                    bump("disk_layers")
                v = judge_shuffle(pdf, parts, n_out, kcols, key, ignore_index)
                if v and not viol:
                    v.update({"key": key, "ignore_index": ignore_index, "cell": [n_in, n_out, mb, method]})
                    viol = v
                nonempty = sum(1 for p in parts if len(p))
                if nonempty >= 2 or n_in != n_out:
                    nt.append(f"{n_in},{n_out},{mb},{method},{key},{ignore_index}")
                if not ignore_index and key in ("int", "cat"):
                    part_maps[key] = key_map(parts, "ki")
                # ---- subsets of output partitions pushed into the shuffle ------------------------
                if not viol and n_out >= 2:
                    subsets = [[n_out - 1], [0], list(range(0, n_out, 2)), list(reversed(range(n_out)))[: max(1, n_out // 2)]]
                    sub = subsets[rng.randrange(len(subsets))]
                    try:
                        sp, _ = parts_of(sh.partitions[sub])
                        bump("subset_checks")
                        if len(sp) != len(sub):
                            viol = {"oracle": "subset_partitions", "symptom": "partition-count", "got": len(sp), "exp": len(sub)}
                        else:
                            for j, pi in enumerate(sub):
                                if sorted(sp[j]["rid"].tolist()) != sorted(parts[pi]["rid"].tolist()):
                                    viol = {"oracle": "subset_partitions", "symptom": "rows", "subset": sub, "which": pi,
                                            "got": sorted(sp[j]["rid"].tolist()), "exp": sorted(parts[pi]["rid"].tolist())}
                                    break
                        if viol:
                            viol.update({"key": key, "ignore_index": ignore_index, "cell": [n_in, n_out, mb, method]})
                    except Exception as e:
                        viol = {"oracle": "subset_partitions", "symptom": f"raises:{type(e).__name__}", "detail": str(e)[:200], "key": key, "cell": [n_in, n_out, mb, method], "subset": sub}
        # ---- cross-frame consistency: int vs float vs categorical-of-numbers keys ----------------
        if not viol:
            try:
                pf, _ = parts_of(ddf.shuffle("kf", npartitions=n_out, max_branch=mb))
                mf = key_map(pf, "kf")
                # a second, differently partitioned frame with the float key
                other = dx.from_pandas(pdf.iloc[::-1], npartitions=max(1, (n_in % 4) + 1), sort=False)
                po, _ = parts_of(other.shuffle("kf", npartitions=n_out, max_branch=mb))
                mo = key_map(po, "kf")
                for nm, m in list(part_maps.items()) + [("float-other-layout", mo)]:
                    bump("crossframe_checks")
                    for kv, p in m.items():
                        if float(kv) in mf and mf[float(kv)] != p:
                            viol = {"oracle": "crossframe_partition", "symptom": "key-in-different-partition", "frames": ["float", nm], "keyval": float(kv),
                                    "got": p, "exp": mf[float(kv)], "cell": [n_in, n_out, mb, method]}
                            break
                    if viol:
                        break
            except Exception as e:
                viol = {"oracle": "crossframe_partition", "symptom": f"raises:{type(e).__name__}", "detail": str(e)[:200], "cell": [n_in, n_out, mb, method]}
        # ---- the index as key, referred to by NAME or by on_index, int labels in one frame and float labels in the other ----------
        if not viol:
            try:
                ia = dx.from_pandas(pdf.set_index(pdf.ki.rename("kidx")), npartitions=n_in, sort=False)
                fa = dx.from_pandas(pdf.iloc[::-1].set_index(pdf.iloc[::-1].ki.astype("float64").rename("kidx")), npartitions=max(1, (n_in % 3) + 1), sort=False)
                maps = {}
                for tag, fr, kw2 in (("int-by-name", ia, {"on": "kidx"}), ("float-by-name", fa, {"on": "kidx"}), ("int-on-index", ia, {"on_index": True}), ("float-on-index", fa, {"on_index": True})):
                    pp, _ = parts_of(fr.shuffle(npartitions=n_out, max_branch=mb, **kw2))
                    m = {}
                    for pi, part in enumerate(pp):
                        for kv in set(part.index.tolist()):
                            if float(kv) in m and m[float(kv)] != pi:
                                viol = {"oracle": "colocation", "symptom": "key-in-two-partitions", "frames": [tag], "keyval": float(kv), "cell": [n_in, n_out, mb, method]}
                            m[float(kv)] = pi
                    if sorted(r for part in pp for r in part["rid"].tolist()) != sorted(pdf["rid"].tolist()) and not viol:
                        viol = {"oracle": "exactly_once", "symptom": "rows", "frames": [tag], "cell": [n_in, n_out, mb, method]}
                    maps[tag] = m
                    bump("index_key_shuffles")
                base = maps["int-on-index"]
                for tag, m in maps.items():
                    bump("crossframe_checks")
                    for kv, p in m.items():
                        if kv in base and base[kv] != p and not viol:
                            viol = {"oracle": "crossframe_partition", "symptom": "key-in-different-partition", "frames": ["int-on-index", tag], "keyval": kv, "got": p, "exp": base[kv],
                                    "cell": [n_in, n_out, mb, method]}
                if not viol:
                    # the consumer: a join of the int-indexed frame (index referred to by name) with a frame holding the key as a float column
                    right = dx.from_pandas(pd.DataFrame({"kidx": pdf.ki.astype("float64").unique(), "w": 1.0}), npartitions=2, sort=False)
                    got = ia[["rid"]].merge(right, on="kidx", how="inner", shuffle_method=method if method != "disk" else None, npartitions=n_out).compute(scheduler="sync")
                    bump("index_name_joins")
                    if len(got) != len(pdf):
                        viol = {"oracle": "consumer_join", "symptom": "fewer-rows" if len(got) < len(pdf) else "more-rows", "got": len(got), "exp": len(pdf), "frames": ["index-by-name join"],
                                "cell": [n_in, n_out, mb, method]}
            except Exception as e:
                viol = {"oracle": "crossframe_partition", "symptom": f"raises:{type(e).__name__}", "detail": str(e)[:200], "cell": [n_in, n_out, mb, method], "frames": ["index-key"]}
        # ---- consumers relying on co-location -------------------------------------------------------
        if not viol and mb == CONFIG["quick"]["branches"][0]:
            v = consumers(dx, pdf, ddf, n_in, n_out, rng, bump)
            if v:
                v["cell"] = [n_in, n_out, mb, method]
                viol = v
    rec = {"status": "violation" if viol else "ok", "counters": counters, "sets": sets, "nt": nt}
    if viol:
        rec["viol"] = viol
    if n_in == 3 and n_out == 4:
        rec["sample"] = {"cell": case, "keys": KEYS, "rows": n}
    return rec


def key_map(parts, col):
    m = {}
    for i, p in enumerate(parts):
        for v in p[col].dropna().unique().tolist():
            m.setdefault(float(v), i)
    return m


def judge_shuffle(pdf, parts, n_out, kcols, key, ignore_index):
    if len(parts) != n_out:
        return {"oracle": "shuffle_npartitions", "symptom": "partition-count", "got": len(parts), "exp": n_out}
    rids = sorted(r for p in parts for r in p["rid"].tolist())
    exp = sorted(pdf["rid"].tolist())
    if rids != exp:
        return {"oracle": "exactly_once", "symptom": "fewer-rows" if len(rids) < len(exp) else ("more-rows" if len(rids) > len(exp) else "rows"),
                "got": len(rids), "exp": len(exp), "missing": sorted(set(exp) - set(rids))[:10]}
    # payload intact: row content by rid equals the source row
    allp = pd.concat(parts)
    src = pdf.set_index("rid")
    got = allp.set_index("rid").loc[src.index]
    for c in ("ki", "v"):
        if not (got[c].to_numpy() == src[c].to_numpy()).all():
            return {"oracle": "payload", "symptom": "values", "col": c}
    if not ignore_index:
        a = allp.sort_values("rid").index.to_numpy()
        if not (a == pdf.sort_values("rid").index.to_numpy()).all():
            return {"oracle": "payload", "symptom": "index-labels"}
    # co-location
    where = {}
    for i, p in enumerate(parts):
        if not len(p):
            continue
        if kcols is None:
            kv = [(x,) for x in p.index.tolist()]
        elif kcols == "series":
            kv = [(x % 5,) for x in p["ki"].tolist()]
        else:
            kv = list(zip(*[p[c].astype(object).tolist() for c in kcols]))
        for t in kv:
            if any(x is None or x is pd.NA or (isinstance(x, float) and x != x) for x in t):
                continue
            if where.setdefault(t, i) != i:
                return {"oracle": "colocation", "symptom": "equal-keys-in-different-partitions", "keyval": repr(t), "parts": [where[t], i]}
    return None


def consumers(dx, pdf, ddf, n_in, n_out, rng, bump):
    from vmon.compare import compare

    right = pd.DataFrame({"kf": np.arange(0, 12, dtype=float), "w": np.arange(12) * 10, "rid_r": np.arange(12) + 100})
    rdf = dx.from_pandas(right, npartitions=max(1, min(n_out, 4)), sort=False)
    # hash join with int key on the left and float key on the right
    try:
        m = ddf.merge(rdf, left_on="ki", right_on="kf", how="inner", broadcast=False, npartitions=n_out)
        got = m.compute()[["rid", "rid_r"]]
        exp = pdf.merge(right, left_on="ki", right_on="kf", how="inner")[["rid", "rid_r"]]
        bump("consumer_checks")
        d = compare(got, exp, order=False, index=False, dtypes=False)
        if d:
            d.update({"oracle": "hash_merge_int_float"})
            return d
        g = ddf.groupby("ki").v.sum(split_out=n_out)
        bump("consumer_checks")
        d = compare(g.compute(), pdf.groupby("ki").v.sum(), order=False, index=True, dtypes=False)
        if d:
            d.update({"oracle": "shuffle_reduce_groupby"})
            return d
        a = ddf.groupby("ks").apply(lambda x: x.v.sum(), meta=("v", "f8"))
        bump("consumer_checks")
        d = compare(a.compute(), pdf.groupby("ks").apply(lambda x: x.v.sum()).rename("v"), order=False, index=True, dtypes=False, names=False)
        if d:
            d.update({"oracle": "groupby_apply"})
            return d
    except Exception as e:
        return {"oracle": "consumers", "symptom": f"raises:{type(e).__name__}", "detail": str(e)[:300]}
    return None
