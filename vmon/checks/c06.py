"""C06 - reported partition structure (npartitions, divisions, lengths) is truthful."""
import os

from vmon import planaudit

LEVEL = "exploration"
MANIFEST = {
    "text": "Declared-vs-computed audit (M-plan) of every collection a user can hold: for every value L of seeded random programs and of ~50 targeted queries over the division-deriving operators (partition-filtered sources, fused multi-file reads, set_index/sort outputs, index joins, concat, loc, shifted/renamed indexes, head/tail, every repartition kind, parquet/csv/array sources), and every optimizer stage S, the root of optimize_until(L, S) is computed on the real code and its partitions are compared with the reported npartitions / divisions (count, sortedness, per-partition containment with closed last bound). len / Lengths / size answered from metadata are compared with the computed row counts, recording whether the plan became a Literal. ~170 targeted collections incl. the keyword surface of the front end are audited at every stage; row counts from metadata are compared per partition.",
    "note": "Only user-holdable collections (roots of optimize_until(L, S)) are audited; private physical intermediates inherit placeholder divisions by design. User-asserted divisions in the workload are truthful. Division comparisons raising TypeError are counted, not judged.",
    "technique": "runtime monitoring: M-plan declared-vs-computed structure audit at every plan stage + metadata-count oracle",
    "design_ref": "DESIGN.md section 4, C06",
}
RULE = ("audited set = {optimize_until(L,S)} for every program value L and stage S (quick 3 stages, thorough 6) + targeted division-deriving queries; "
        "non-trivial = audited collection with known divisions and > 1 partition; distinct by (program, value, stage)")
ASSUMPTIONS = ["index min/max of each computed partition as ground truth"]
CONFIG = {
    "quick": {"budget_s": 55, "programs": 500, "case_timeout_s": 90},
    "thorough": {"budget_s": 600, "programs": 2500, "case_timeout_s": 180},
}
TIER = {"t": "quick"}


def floors(tier):
    return {"cases": 250, "audits": 3000, "division_partitions_checked": 4000, "nontrivial": 800, "len_checks": 500, "len_answered_from_metadata": 100,
            "set:root_classes": 50}


def cases(tier, seed):
    for name in sorted(TARGET_NAMES):
        yield {"targeted": name}
    for name in planaudit.sk_names():
        yield {"targeted": name}
    profiles = ["structure", "default", "structure", "filter", "projection", "blockwise"]
    for i in range(CONFIG[tier]["programs"]):
        yield {"gen": [seed, i], "profile": profiles[i % len(profiles)]}


TARGET_NAMES = ["partitions_source", "partitions_last", "partitions_elemwise", "fusedio_projection", "fusedio_projection2", "set_index", "set_index_sorted",
                "set_index_npart", "set_index_divisions", "sort_values", "index_join", "index_join_outer", "concat0", "concat0_overlap", "concat0_touching", "concat0_touching3", "concat0_adjacent", "concat1", "loc_slice",
                "loc_slice_open", "loc_list", "loc_elem", "shift_freq", "shift_rows", "rename_index_sorted", "head", "head_np2", "tail", "repartition_div",
                "repartition_n_fewer", "repartition_n_more", "repartition_dup_more", "repartition_freq", "map_index", "to_timestamp_like", "cumsum", "rolling",
                "groupby_cumsum", "from_array", "from_array_parts", "str_index", "float_index_setidx", "dt_index_resample_like",
                "parquet_fsspec_div", "parquet_fsspec_proj", "parquet_fsspec_parts", "parquet_fsspec_filter", "parquet_arrow_div", "parquet_arrow_proj",
                "parquet_arrow_parts", "parquet_arrow_filter", "csv_proj", "csv_parts"]


def setup_worker(tier, seed):
    TIER["t"] = tier


def run_case(case):
    return planaudit.run(case, "structure", "C06", TIER["t"])
