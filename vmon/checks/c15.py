"""C15 - planner caches are transparent: results are independent of session history.

Events: an observation (result, optimized plan, divisions, len, npartitions) of query q made at some point of a
long session differs from the same observation of q made alone in a FRESH interpreter; an exception in the session
where the fresh run succeeds; after a dataset rewrite, a read that still shows old contents.
Faults: user-function failures injected while planning-time (quantile) and execution-time computes run, then retried.
Monitor: M-cache logs hit / miss / insert / evict of the planner's LRUs; a session without eviction is trivial.
"""
import gc
import os
import pickle
import shutil
import subprocess
import sys
import json
import time

import dask
import numpy as np
import pandas as pd

from vmon import VERIF_DIR
from vmon import monitors as M
from vmon import progcase, sessionq, tables
from vmon.compare import compare
from vmon.util import derive_rng, shash

LEVEL = "fault_enumeration"
MANIFEST = {
    "text": "Long sessions in one process interleave build / optimize (keeping the optimized object alive) / compute / len / divisions / drop + gc.collect() / pickle-drop-restore / injected-failure-then-retry steps over a pool of 25-60 queries - more than every planner cache holds (10) - biased to cache users (sort_values / set_index on many columns with varied npartitions / ascending / upsample, repartition(partition_size=), one frame under many (npartitions, sort) layouts, repartition(pdf, divisions), random programs). Failures are injected through a user function that raises while a flag is set (during planning-time quantile computes and at execution) and the step is retried. Every observation recorded in the session is compared with the same query built alone in a fresh interpreter; parquet and CSV datasets are rewritten in place (different row count) and re-read. A cache monitor records inserts, hits and evictions per cache. Pools contain sibling views: a query and a narrowing selection of it, five views of one parquet dataset with unevenly sized files, aggregation / projection / rebuilt copy.",
    "note": "fault_enumeration over sampled histories: failures are injected at every flaky query's planning and execution compute, not at every program point. One fresh observer process per observed query (about 1.5 s).",
    "technique": "runtime monitoring: long-history sessions with fault injection, M-cache event log, and a fresh-process differential oracle per observation",
    "design_ref": "DESIGN.md section 4, C15",
}
RULE = ("sessions = seeded random interleavings of steps over a query pool larger than every cache; non-trivial = an observed query whose session saw at least one LRU eviction "
        "before the observation; distinct by (session, query)")
ASSUMPTIONS = ["the fresh interpreter's observation is the reference", "dataset rewrites change the row count (timestamp granularity is not what is tested)"]
CONFIG = {
    "quick": {"budget_s": 55, "sessions": 16, "pool": 36, "steps": 70, "observe": 7, "case_timeout_s": 900},
    "thorough": {"budget_s": 660, "sessions": 48, "pool": 60, "steps": 220, "observe": 24, "case_timeout_s": 600},
}
TIER = {"t": "quick"}


def floors(tier):
    return {"cases": 10, "session_steps": 500, "observations_compared_with_fresh": 100, "fresh_processes": 50, "cache_evicts": 20, "cache_hits": 30, "cache_inserts": 100,
            "failures_injected": 1, "retries_after_failure_compared": 1, "dataset_rewrites_checked": 12, "pickle_restore_steps": 15, "nontrivial": 20}


def cases(tier, seed):
    for i in range(CONFIG[tier]["sessions"]):
        yield {"session": i, "seed": seed}


def setup_worker(tier, seed):
    TIER["t"] = tier
    M.CACHES.install()


def make_pool(rng, n):
    pool = []
    tspec = {"seed": rng.randrange(10**6), "n": 40, "index": "range"}
    cols = ["u", "k", "i", "g", "f", "rid", "t"]
    while len(pool) < n:
        r = rng.random()
        if r < 0.55:
            by = rng.choice(cols if rng.random() < 0.7 else ["u", "rid"])
            if by == "f":
                by = "g"
            q = {"t": "sort", "table": tspec, "np": rng.choice([2, 3, 5]), "kind": rng.choice(["set_index", "sort_values"]), "by": by,
                 "ascending": rng.random() < 0.7, "npartitions": rng.choice([None, None, 2, 4]), "upsample": rng.choice([None, None, 0.5, 2.0])}
            pool.append(q)
            if rng.random() < 0.6:
                # a sibling differing in exactly one field that a cache key must contain (direction, partition hint, sampling, layout)
                field = rng.choice(["ascending", "npartitions", "upsample", "np", "kind"])
                sib = dict(q)
                if field == "ascending":
                    sib["kind"], sib["ascending"] = "sort_values", not q["ascending"]
                    q["kind"] = "sort_values"
                elif field == "npartitions":
                    sib["npartitions"] = {None: 2, 2: 4, 4: None}[q["npartitions"]]
                elif field == "upsample":
                    sib["upsample"] = {None: 2.0, 2.0: 0.5, 0.5: None}[q["upsample"]]
                elif field == "np":
                    sib["np"] = {2: 3, 3: 5, 5: 2}[q["np"]]
                else:
                    sib["kind"] = "set_index" if q["kind"] == "sort_values" else "sort_values"
                sib["_sib"] = q["_sib"] = len(pool)
                pool.append(sib)
        elif r < 0.62:
            pool.append({"t": "resize", "table": dict(tspec, seed=tspec["seed"] + rng.randrange(3)), "np": rng.choice([2, 4, 6]), "size": rng.choice(["1kiB", "2kiB", "600B"])})
        elif r < 0.70:
            pool.append({"t": "frompandas", "table": tspec, "np": rng.choice([1, 2, 3, 4, 5, 6, 7]), "sort": rng.random() < 0.6})
        elif r < 0.75:
            hi = 39
            cuts = sorted(rng.sample(range(1, hi), rng.choice([1, 2, 3])))
            pool.append({"t": "repdiv", "table": tspec, "divisions": [0] + cuts + [hi]})
        elif r < 0.83:
            pool.append({"t": rng.choice(["flaky_setindex", "flaky_sum"]), "table": tspec, "np": rng.choice([2, 3, 4]), "by": rng.choice(["u", "k", "rid"])})
        else:
            prog = progcase.gen_prog(("C15", rng.randrange(10**9)), profile=rng.choice(["planner_state", "default", "structure"]))
            try:
                b = progcase.Built(prog).build_sources()
                b.eval_pd()
                flags = {"order": b.out_pd.order, "index": b.out_pd.index}
            except Exception:
                continue
            pool.append({"t": "prog", "prog": prog, "method": rng.choice(["tasks", "disk"]), "flags": flags})
            outv = b.out_pd.pd
            if isinstance(outv, pd.DataFrame) and outv.shape[1] >= 2 and rng.random() < 0.6:
                # a narrowing selection of the same query: optimizing it pushes a projection through the shared sub-plan,
                # which must leave the parent query (same expression objects, deduplicated by name) untouched
                cols = [c for c in rng.sample(list(outv.columns), rng.randrange(1, outv.shape[1]))]
                pool[-1]["_sib"] = len(pool) - 1
                pool.append({"t": "prog_proj", "prog": prog, "method": pool[-1]["method"], "flags": flags, "cols": cols, "_sib": len(pool) - 1})
    # an aggregation, a narrowing selection of it and a rebuilt copy
    first = len(pool)
    gk = rng.choice(["k", "i"])
    for variant in ("agg", "agg_proj", "agg_mp", "agg_mp_proj", "agg_series"):
        pool.append({"t": "gb", "table": dict(tspec, cols=["k", "i", "g", "u", "rid"]), "np": 3, "by": gk, "variant": variant, "_sib": first})
    # several views of ONE parquet dataset with unevenly sized files (process-wide statistics caches are keyed by file):
    # a column-projected view (its optimization samples statistics), the full frame, len / loc / series users of the statistics
    ds = rng.randrange(10**6)
    fs = rng.choice(["arrow", "arrow", "fsspec"])
    nfiles = rng.choice([4, 5, 7])
    first = len(pool)
    for variant in ("proj", "full", "loc", "series", "filter", "proj2"):
        pool.append({"t": "pq", "ds": ds, "fs": fs, "nfiles": nfiles, "variant": variant, "cd": variant in ("loc", "full") or rng.random() < 0.5, "_sib": first})
    # de-duplicate identical specs
    seen, out = set(), []
    for q in pool:
        h = shash({k: v for k, v in q.items() if k != "_sib"})
        if h not in seen:
            seen.add(h)
            out.append(q)
    return out


def run_case(case):
    conf = CONFIG[TIER["t"]]
    scratch = os.environ.get("VMON_SCRATCH", "/tmp")
    rng = derive_rng("C15", case["seed"], case["session"])
    counters, sets = {}, {}
    rec = {"status": "ok", "counters": counters, "sets": sets, "nt": []}

    def bump(k, v=1):
        counters[k] = counters.get(k, 0) + v

    pool = case.get("pool") or make_pool(rng, conf["pool"])
    M.CACHES.reset()
    alive = {}
    observations = {}  # qi -> list of {kind, value, step}
    evictions_before = {}
    viol = None
    sess_errors = {}
    steps_plan = case.get("steps_plan")
    log = []
    # scripted prelude: every sibling group (queries that differ in one field a cache key must contain, views of one dataset, a
    # query and its narrowing selection) is visited member after member - compute each, then observe each - before the random steps
    prelude = []
    if not steps_plan:
        groups = {}
        for i_, q_ in enumerate(pool):
            if "_sib" in q_:
                groups.setdefault(q_["_sib"], []).append(i_)
        r2 = derive_rng("C15prelude", case["seed"], case["session"])
        for members in groups.values():
            # planning that keeps the partitions (compute() collapses to one partition and bypasses the planner caches) ...
            prelude += [(i_, "optimize_keep") for i_ in members]
            # ... then every member is observed through the planner, in the other order
            for i_ in reversed(members):
                prelude += [(i_, "plan"), (i_, r2.choice(["divisions", "len", "compute", "npartitions"]))]
        prelude = prelude[:130]
    for step in range(len(prelude) + conf["steps"] if not steps_plan else len(steps_plan)):
        if steps_plan:
            qi, action = steps_plan[step]
        elif step < len(prelude):
            qi, action = prelude[step]
        else:
            sibs = [i for i, q_ in enumerate(pool) if "_sib" in q_]
            qi = rng.choice(sibs) if (sibs and rng.random() < 0.45) else rng.randrange(len(pool))
            action = rng.choice(["build", "optimize_keep", "compute", "compute", "len", "divisions", "plan", "plan", "drop_gc", "pickle_restore", "fail_retry", "npartitions"])
            if action == "fail_retry":
                flaky_q = [i for i, q_ in enumerate(pool) if q_["t"].startswith("flaky")]
                if flaky_q:
                    qi = rng.choice(flaky_q)
        spec = pool[qi]
        log.append([qi, action])
        bump("session_steps")
        try:
            ent = alive.get(qi)
            if ent is None or action == "build":
                ent = {"coll": sessionq.build_query(spec, scratch)}
                alive[qi] = ent
            coll = ent["coll"]
            method = spec.get("method")
            ev_now = sum(v for (c, e), v in M.CACHES.events.items() if e == "evict")
            if action == "optimize_keep":
                with dask.config.set({"dataframe.shuffle.method": method} if method else {}):
                    ent["opt"] = coll.optimize()
            elif action in ("compute", "len", "divisions", "plan", "npartitions"):
                kind = {"compute": "result", "len": "len", "divisions": "opt_divisions", "plan": "plan", "npartitions": "npartitions"}[action]
                if kind == "result" and "opt" in ent and rng.random() < 0.5:
                    # compute the optimized object that was kept alive across other queries
                    with dask.config.set({"dataframe.shuffle.method": method} if method else {}):
                        val = ent["opt"].compute(scheduler="sync")
                else:
                    val = sessionq.observe(coll, [kind], method)[kind]
                observations.setdefault(qi, []).append({"kind": kind, "value": val, "step": step})
                evictions_before.setdefault(qi, ev_now)
                evictions_before[qi] = max(evictions_before[qi], ev_now)
            elif action == "drop_gc":
                alive.pop(qi, None)
                del ent, coll
                gc.collect()
            elif action == "pickle_restore":
                blob = pickle.dumps(ent.get("opt", coll))
                alive.pop(qi, None)
                del ent, coll
                gc.collect()
                alive[qi] = {"coll": sessionq.build_query(spec, scratch), "opt": pickle.loads(blob)}
                bump("pickle_restore_steps")
            elif action == "fail_retry":
                if spec["t"].startswith("flaky"):
                    sessionq.FLAG["fail"] = True
                    try:
                        sessionq.observe(coll, ["result"], method)
                        bump("injected_failure_did_not_surface")
                    except RuntimeError:
                        bump("failures_injected")
                    except Exception as ex:
                        bump("failures_injected")
                        sets.setdefault("failure_surfaces_as", []).append(type(ex).__name__)
                    finally:
                        sessionq.FLAG["fail"] = False
                    val = sessionq.observe(coll, ["result"], method)["result"]
                    observations.setdefault(qi, []).append({"kind": "result", "value": val, "step": step})
                    evictions_before[qi] = ev_now
                    bump("retries_after_failure_compared")
        except Exception as ex:
            sessionq.FLAG["fail"] = False
            sess_errors.setdefault(qi, dict(progcase.exc_info(ex), step=step, action=action))
            alive.pop(qi, None)
    for (cname, e), v in M.CACHES.events.items():
        bump(f"cache_{e}s" if e != "miss" else "cache_misses", v)
        sets.setdefault("caches_seen", []).append(cname)
    # ---- dataset rewrite: re-reading reflects the new contents ------------------------------------
    v = dataset_rewrite_check(scratch, rng, bump)
    if v:
        viol = v
    # ---- fresh-process oracle -----------------------------------------------------------------------
    if viol is None:
        todo = sorted(set(list(observations) + list(sess_errors)))
        rng.shuffle(todo)
        todo.sort(key=lambda i: 0 if "_sib" in pool[i] else 1)  # sibling queries (one cache-key field apart) first
        if case.get("observe_only") is not None:
            todo = case["observe_only"]
        for qi in todo[: conf["observe"]]:
            spec = pool[qi]
            obs = observations.get(qi, [])
            path = os.path.join(scratch, f"c15-{os.getpid()}-{case['session']}-{qi}.pkl")
            with open(path, "wb") as fh:
                if qi in sess_errors:
                    # the fresh interpreter must attempt the very observation that raised in the session
                    akind = {"optimize_keep": "plan", "compute": "result", "len": "len", "divisions": "opt_divisions", "plan": "plan", "npartitions": "npartitions",
                             "pickle_restore": "plan", "fail_retry": "result", "build": "result", "drop_gc": "result"}[sess_errors[qi]["action"]]
                    obs = [{"kind": akind, "value": None, "step": -1}]
                pickle.dump({"spec": spec, "observations": obs if obs else [{"kind": "result", "value": None, "step": -1}], "scratch": scratch}, fh)
            env = dict(os.environ)
            env["PYTHONPATH"] = VERIF_DIR + (os.pathsep + env["PYTHONPATH"] if env.get("PYTHONPATH") else "")
            env["PYTHONHASHSEED"] = ["random", "1", "2"][qi % 3]
            try:
                r = subprocess.run([sys.executable, "-W", "ignore", "-m", "vmon.observer", path], env=env, capture_output=True, text=True, timeout=400)
            except subprocess.TimeoutExpired:
                bump("observer_timeout")
                continue
            finally:
                try:
                    os.remove(path)
                except OSError:
                    pass
            line = next((ln for ln in r.stdout.splitlines() if ln.startswith("OBSERVER ")), None)
            if line is None:
                bump("observer_no_output")
                sets.setdefault("observer_errors", []).append((r.stderr or "")[-200:])
                continue
            out = json.loads(line[9:])
            bump("fresh_processes")
            if out.get("ok") is None:
                bump("fresh_run_raises_too")  # the query fails alone as well: not history dependence
                continue
            if qi in sess_errors:
                e = sess_errors[qi]
                viol = dict(e, oracle="session_raises_fresh_succeeds", qi=qi, t=spec["t"])
                vq = qi
                break
            bump("observations_compared_with_fresh", out.get("compared", 0))
            if evictions_before.get(qi, 0) > 0:
                rec["nt"].append(f"{case['session']}:{qi}")
            if out.get("ok") is False:
                out.pop("ok")
                viol = dict(out, oracle="session_vs_fresh", qi=qi, t=spec["t"])
                vq = qi
                break
    if viol:
        viol["ops"] = [pool[viol["qi"]]["t"]] if "qi" in viol else ["dataset"]
        viol["src"] = [json.dumps({k: v for k, v in pool[viol["qi"]].items() if k != "prog"}, default=str)[:400]] if "qi" in viol else ["dataset rewrite"]
        rec["status"] = "violation"
        rec["viol"] = viol
        rec["case"] = {"session": case["session"], "seed": case["seed"], "pool": pool, "steps_plan": log, "observe_only": [viol["qi"]] if "qi" in viol else []}
    if case["session"] == 0:
        rec["sample"] = {"pool_kinds": [q["t"] for q in pool], "first_steps": log[:15], "cache_events": {f"{c}:{e}": v for (c, e), v in M.CACHES.events.items()}}
    return rec


def dataset_rewrite_check(scratch, rng, bump):
    import dask_expr as dx

    for kind in ("parquet_fsspec", "parquet_arrow", "csv"):
        path = os.path.join(scratch, f"c15-ds-{os.getpid()}-{kind}")
        shutil.rmtree(path, ignore_errors=True)
        n1, n2 = rng.choice([12, 20]), rng.choice([7, 31])
        p1 = pd.DataFrame({"x": np.arange(n1), "y": np.arange(n1) * 2.0})
        p2 = pd.DataFrame({"x": np.arange(n2) + 100, "y": np.arange(n2) * 3.0})
        try:
            def write(p):
                if kind == "csv":
                    os.makedirs(path, exist_ok=True)
                    for f in os.listdir(path):
                        os.remove(os.path.join(path, f))
                    p.to_csv(os.path.join(path, "a.csv"), index=False)
                else:
                    dx.from_pandas(p, npartitions=2).to_parquet(path, overwrite=True)

            def read():
                if kind == "csv":
                    return dx.read_csv(os.path.join(path, "*.csv"))
                return dx.read_parquet(path, filesystem=kind.split("_")[1])

            write(p1)
            r1 = read()
            a = (len(r1), float(r1.x.sum().compute(scheduler="sync")))
            write(p2)
            now = time.time() + 5
            for f in os.listdir(path):
                os.utime(os.path.join(path, f), (now, now))
            r2 = read()
            b = (len(r2), float(r2.x.sum().compute(scheduler="sync")))
            bump("dataset_rewrites_checked")
            exp = (n2, float(p2.x.sum()))
            if b != exp:
                return {"oracle": "dataset_rewrite", "symptom": "stale-read-after-rewrite", "dataset": kind, "got": list(b), "exp": list(exp), "before": list(a)}
        except Exception as ex:
            return dict(progcase.exc_info(ex), oracle="dataset_rewrite_runs", dataset=kind)
        finally:
            shutil.rmtree(path, ignore_errors=True)
    return None
