"""C19 - optimization terminates, is deterministic and idempotent.

Liveness ("never loops") is restated as bounded progress in logical steps: the number of simplify_once /
lower_once calls per optimize() is monitored against a budget proportional to the plan size; the wall-clock
watchdog (case timeout) is inconclusive, never a violation.
"""
import gc

import dask

from vmon import monitors as M
from vmon import progcase, programs
from vmon.compare import compare
from vmon.execs import concat_parts, exec_ref
from vmon.util import derive_rng, shash

LEVEL = "exploration"
MANIFEST = {
    "text": "For seeded random programs (same space as C01) every optimizer stage is run under a step monitor (calls of simplify_once / lower_once / rewrite, rule firings) with a budget of 1000 + 400 x plan nodes (observed maximum is recorded; budget is >10x it); RuntimeError('does not converge') or a budget overrun is a violation. The optimized plan's name and tree are compared between repetitions, after gc.collect(), and after rebuilding the whole program from fresh source objects; optimize(optimize(q)) and optimize_until(optimize(q), S) must not raise and must compute the same result. ~230 targeted collections (plan-audit targets, nested / re-optimized shapes, aggregation views, 40 filter-over-merge cells) run under the step monitor; the first optimization of every stage is compared with a second pass over the same user-held objects.",
    "note": "Bounded-progress restatement of termination; a per-case wall-clock timeout is reported as inconclusive. Cross-process / hash-seed determinism of names is decided by C08.",
    "technique": "runtime monitoring: step-counter monitor with budget on the real rewrite drivers + name/plan equality oracle over repeated and nested optimize() calls",
    "design_ref": "DESIGN.md section 4, C19",
}
RULE = ("programs from the typed generator; non-trivial = optimize() changed the plan (>=1 rule fired); distinct by program hash; "
        "per program: 5 stages under the step budget, 3 repetitions (same objects, after gc, rebuilt from scratch), optimize∘optimize, optimize_until∘optimize for 3 stages")
ASSUMPTIONS = ["budget = 1000 + 400 * number of nodes of the logical plan for simplify_once and lower_once calls per optimize_until call"]

STAGES = ["simplified-logical", "tuned-logical", "physical", "simplified-physical", "fused"]
CONFIG = {
    "quick": {"budget_s": 50, "programs": 1500, "case_timeout_s": 60},
    "thorough": {"budget_s": 600, "programs": 8000, "case_timeout_s": 120},
}


def floors(tier):
    return {"cases": 500, "nontrivial": 250, "optimize_calls": 3000, "repetitions_compared": 1000, "idempotence_compared": 400, "nested_stage_runs": 1000}


def targeted_builders():
    """name -> builder of a collection: the targeted collections of the plan audits, the nested / re-optimized shapes of C14 and the
    aggregation views of C15's sessions (aggregations over a map_partitions input keep their Projection nodes)"""
    import os

    from vmon import planaudit, sessionq
    from vmon.checks import c14

    out = dict(planaudit.targeted(os.environ.get("VMON_SCRATCH")))
    for f in c14.TARGETED:
        out["c14" + f.__name__] = f
    tspec = {"seed": 5, "n": 40, "index": "range", "cols": ["k", "i", "g", "u", "rid"]}
    out.update(merge_filter_builders())
    for v in ("agg", "agg_proj", "agg_mp", "agg_mp_proj", "agg_series"):
        out[f"gb_{v}"] = (lambda v=v: sessionq.build_query({"t": "gb", "table": tspec, "np": 3, "by": "k", "variant": v}))
    return out


MF_HOWS = ["inner", "left", "right", "outer"]
MF_PREDS = ["L&R", "R&L", "L&L", "R&R", "K&R", "R&K", "L|R", "(L&R)&K", "R&(L|K)", "~R&L"]


def merge_filter_builders():
    """filters over a multi-partition merge whose conjuncts come from different inputs, in every order and join direction:
    push-down and re-merging rules of Filter and Merge must reach a fixed point"""
    import dask_expr as dx
    import numpy as np
    import pandas as pd

    def build(how, pred):
        left = pd.DataFrame({"key": np.arange(30) % 6, "a": np.arange(30), "x": np.arange(30) % 4})
        right = pd.DataFrame({"key": np.arange(12) % 8, "b": np.arange(12) * 3, "y": np.arange(12) % 5})
        m = dx.from_pandas(left, npartitions=4).merge(dx.from_pandas(right, npartitions=3), on="key", how=how)
        L, R, K = m.a > 2, m.b < 40, m.key > 0
        p = {"L&R": lambda: L & R, "R&L": lambda: R & L, "L&L": lambda: L & (m.x > 0), "R&R": lambda: R & (m.y > 0), "K&R": lambda: K & R, "R&K": lambda: R & K,
             "L|R": lambda: L | R, "(L&R)&K": lambda: (L & R) & K, "R&(L|K)": lambda: R & (L | K), "~R&L": lambda: ~R & L}[pred]()
        return m[p]
    return {f"mf_{how}_{pred}": (lambda how=how, pred=pred: build(how, pred)) for how in MF_HOWS for pred in MF_PREDS}


def targeted_names():
    from vmon import planaudit
    from vmon.checks import c14
    from vmon.checks.c06 import TARGET_NAMES

    return sorted(TARGET_NAMES) + planaudit.sk_names() + ["c14" + f.__name__ for f in c14.TARGETED] + [f"gb_{v}" for v in ("agg", "agg_proj", "agg_mp", "agg_mp_proj", "agg_series")] + [f"mf_{how}_{pred}" for how in MF_HOWS for pred in MF_PREDS]


def cases(tier, seed):
    for name in targeted_names():
        yield {"targeted_name": name}
    profiles = ["default", "projection", "filter", "structure", "blockwise", "default"]
    for i in range(CONFIG[tier]["programs"]):
        yield {"gen": [seed, i], "profile": profiles[i % len(profiles)]}


def setup_worker(tier, seed):
    M.RULES.install()
    M.STEPS.install()


def run_case(case):
    if "targeted_name" in case:
        tb = targeted_builders()
        if case["targeted_name"] not in tb:
            return {"status": "undecided", "counters": {"unknown_target": 1}}
        with dask.config.set({"dataframe.shuffle.method": "tasks"}):
            try:
                q = tb[case["targeted_name"]]()
            except Exception:
                return {"status": "refused", "counters": {"build_refused": 1}}
            if not hasattr(q, "expr"):
                return {"status": "undecided", "counters": {"not_a_collection": 1}}
            return _run_case(case, None, "tasks", q=q, rebuild=tb[case["targeted_name"]])
    prog = case["prog"] if "prog" in case else progcase.gen_prog(("C19",) + tuple(case["gen"]), profile=case.get("profile", "default"))
    method = case.get("shuffle") or derive_rng("C19", shash(prog)).choice(["tasks", "disk"])
    with dask.config.set({"dataframe.shuffle.method": method}):
        return _run_case(case, prog, method)


def _run_case(case, prog, method, q=None, rebuild=None):
    from dask_expr._expr import optimize_until

    counters, maxes = {}, {}
    rec = {"status": "ok", "counters": counters, "maxes": maxes, "nt": []}

    def bump(k, v=1):
        counters[k] = counters.get(k, 0) + v

    if q is None:
        b = progcase.Built(prog).build_sources()
        try:
            b.eval_pd()
            b.eval_dx(method)
        except Exception:
            return {"status": "refused", "counters": {"build_refused": 1}}
        q = b.out_dx
        flags = {"order": b.out_pd.order, "index": b.out_pd.index}
    else:
        b = None
        flags = {"order": False, "index": False}
        bump("targeted_cases")
    nodes = len(list(q.expr.walk()))
    # linear in the plan size; nested optimizations started by a rule (eager quantile computes of set_index / sort_values, one per
    # such node) count against it, so the factor is generous - an exponential blow-up (2^depth) still exceeds it at depth ~12
    budget = 1000 + 400 * nodes
    viol = None
    names = {}
    M.RULES.reset()
    for stage in STAGES:
        M.STEPS.reset(budget=budget)
        try:
            e = optimize_until(q.expr, stage)
            names[stage] = e._name
        except M.StepBudgetExceeded as ex:
            viol = {"oracle": "step_budget", "symptom": "budget-exceeded", "stage": stage, "detail": str(ex), "nodes": nodes}
            break
        except RuntimeError as ex:
            if "does not converge" in str(ex):
                viol = {"oracle": "convergence", "symptom": "optimizer-does-not-converge", "stage": stage, "detail": str(ex)[:300]}
                break
            M.STEPS.reset()
            return {"status": "undecided", "counters": {"optimize_raises": 1}}  # C01's matter
        except Exception:
            M.STEPS.reset()
            return {"status": "undecided", "counters": {"optimize_raises": 1}}
        finally:
            c = M.STEPS.counts
            bump("optimize_calls")
            for k in ("simplify_once", "lower_once"):
                r = c.get(k, 0) / max(1, nodes)
                maxes[f"{k}_per_node"] = max(maxes.get(f"{k}_per_node", 0), round(r, 2))
                maxes[f"{k}_calls"] = max(maxes.get(f"{k}_calls", 0), c.get(k, 0))
    M.STEPS.reset()
    fired = sum(M.RULES.snapshot().values())
    bump("rule_firings", fired)
    if viol is None:
        # the very first optimization of every stage against a second pass over the same (user-held) expression objects: a rule
        # that rewrites operands of the user's expressions in place shows as a first-vs-second difference only
        try:
            for stage in STAGES:
                n2 = optimize_until(q.expr, stage)._name
                bump("first_vs_second_pass_compared")
                if stage in names and n2 != names[stage]:
                    viol = {"oracle": "deterministic_plan", "symptom": "plan-differs-between-repetitions", "which": "first-vs-second-pass", "stage": stage}
                    break
        except Exception:
            pass
    if viol is None:
        # determinism: same objects again, after gc, and rebuilt from scratch (fresh source objects, same data)
        try:
            o1 = q.expr.optimize()
            n1, t1 = o1._name, o1.tree_repr()
            o2 = q.expr.optimize()
            gc.collect()
            o3 = q.expr.optimize()
            if b is not None:
                b2 = progcase.Built(prog).build_sources()
                b2.eval_dx(method)
                o4 = b2.out_dx.expr.optimize()
            else:
                o4 = rebuild().expr.optimize()
            bump("repetitions_compared", 3)
            # a persisted value is named after its DATA; where the program leaves the row order undefined (tied sort, shuffle)
            # two builds may legitimately persist differently ordered rows: the rebuilt plan is then not comparable
            persist_of_unordered = b is not None and any(st_["op"] == "persist" and not b.pd_vals[st_["in"][0]].order for st_ in prog["steps"])
            if b is None and "parquet" in case["targeted_name"] or b is None and "csv" in case["targeted_name"]:
                persist_of_unordered = True  # per-process scratch datasets: a rebuilt reader may be named after another file state
            for tag, o in (("repeat", o2), ("after-gc", o3)) + ((("rebuilt", o4),) if not persist_of_unordered else ()):
                if o._name != n1 or o.tree_repr() != t1:
                    viol = {"oracle": "deterministic_plan", "symptom": "plan-differs-between-repetitions", "which": tag, "a": t1[:600], "b": o.tree_repr()[:600]}
                    break
            if viol is None and names.get("fused") != n1:
                viol = {"oracle": "deterministic_plan", "symptom": "optimize-differs-from-optimize_until-fused"}
        except Exception as ex:
            return {"status": "undecided", "counters": {"optimize_raises": 1}}
    if viol is None:
        # idempotence: optimizing an optimized collection leaves its result unchanged and never raises
        with dask.config.set({"dataframe.shuffle.method": method}):
            try:
                with M.Guard():
                    r1 = concat_parts(exec_ref(q.optimize().expr))
            except Exception:
                r1 = None
                bump("first_optimize_result_raises")
            if r1 is not None:
                try:
                    oo = q.optimize().optimize()
                    with M.Guard():
                        r2 = concat_parts(exec_ref(oo.expr))
                    bump("idempotence_compared")
                    d = compare(r2, r1, order=flags["order"], index=flags["index"], dtypes=True)
                    if d:
                        viol = dict(d, oracle="idempotent_result", stage="optimize(optimize(q))")
                    for stage in ("simplified-logical", "physical", "fused"):
                        e = optimize_until(q.optimize().expr, stage)
                        bump("nested_stage_runs")
                    if viol is None:
                        fz = q.optimize(fuse=False).optimize(fuse=True)
                        with M.Guard():
                            r3 = concat_parts(exec_ref(fz.expr))
                        d = compare(r3, r1, order=flags["order"], index=flags["index"], dtypes=True)
                        if d:
                            viol = dict(d, oracle="idempotent_result", stage="optimize(fuse=True)(optimize(fuse=False)(q))")
                except Exception as ex:
                    viol = dict(progcase.exc_info(ex), oracle="nested_optimize_runs", stage="optimize(optimize(q))")
    if fired:
        rec["nt"] = [shash(prog) if prog is not None else case["targeted_name"]]
    if viol:
        viol["ops"] = programs.program_ops(prog) if prog is not None else [case["targeted_name"]]
        viol["src"] = programs.program_source(prog) if prog is not None else [f"targeted:{case['targeted_name']}"]
        rec["status"] = "violation"
        rec["viol"] = viol
        rec["case"] = {"prog": prog, "shuffle": method} if prog is not None else {"targeted_name": case["targeted_name"]}
    if case.get("gen") and case["gen"][1] in (2, 9):
        rec["sample"] = {"program": programs.program_source(prog), "nodes": nodes, "budget": budget, "steps": dict(maxes)}
    return rec
