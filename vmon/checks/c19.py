"""C19 - optimization terminates, is deterministic and idempotent.

Liveness ("never loops") is restated as bounded progress in logical steps: the number of simplify_once /
lower_once calls per optimize() is monitored against a budget proportional to the plan size; the wall-clock
watchdog (case timeout) is inconclusive, never a violation.
"""
import gc

import dask

from vmon import monitors as M
from vmon import progcase, programs
from vmon.compare import compare
from vmon.execs import concat_parts, exec_ref
from vmon.util import derive_rng, shash

LEVEL = "exploration"
MANIFEST = {
    "text": "For seeded random programs (same space as C01) every optimizer stage is run under a step monitor (calls of simplify_once / lower_once / rewrite, rule firings) with a budget of 1000 + 400 x plan nodes (observed maximum is recorded; budget is >10x it); RuntimeError('does not converge') or a budget overrun is a violation. The optimized plan's name and tree are compared between repetitions, after gc.collect(), and after rebuilding the whole program from fresh source objects; optimize(optimize(q)) and optimize_until(optimize(q), S) must not raise and must compute the same result.",
    "note": "Bounded-progress restatement of termination; a per-case wall-clock timeout is reported as inconclusive. Cross-process / hash-seed determinism of names is decided by C08.",
    "technique": "runtime monitoring: step-counter monitor with budget on the real rewrite drivers + name/plan equality oracle over repeated and nested optimize() calls",
    "design_ref": "DESIGN.md section 4, C19",
}
RULE = ("programs from the typed generator; non-trivial = optimize() changed the plan (>=1 rule fired); distinct by program hash; "
        "per program: 5 stages under the step budget, 3 repetitions (same objects, after gc, rebuilt from scratch), optimize∘optimize, optimize_until∘optimize for 3 stages")
ASSUMPTIONS = ["budget = 1000 + 400 * number of nodes of the logical plan for simplify_once and lower_once calls per optimize_until call"]

STAGES = ["simplified-logical", "tuned-logical", "physical", "simplified-physical", "fused"]
CONFIG = {
    "quick": {"budget_s": 50, "programs": 1500, "case_timeout_s": 60},
    "thorough": {"budget_s": 600, "programs": 8000, "case_timeout_s": 120},
}


def floors(tier):
    return {"cases": 500, "nontrivial": 250, "optimize_calls": 3000, "repetitions_compared": 1000, "idempotence_compared": 400, "nested_stage_runs": 1000}


def cases(tier, seed):
    profiles = ["default", "projection", "filter", "structure", "blockwise", "default"]
    for i in range(CONFIG[tier]["programs"]):
        yield {"gen": [seed, i], "profile": profiles[i % len(profiles)]}


def setup_worker(tier, seed):
    M.RULES.install()
    M.STEPS.install()


def run_case(case):
    prog = case["prog"] if "prog" in case else progcase.gen_prog(("C19",) + tuple(case["gen"]), profile=case.get("profile", "default"))
    method = case.get("shuffle") or derive_rng("C19", shash(prog)).choice(["tasks", "disk"])
    with dask.config.set({"dataframe.shuffle.method": method}):
        return _run_case(case, prog, method)


def _run_case(case, prog, method):
    from dask_expr._expr import optimize_until

    counters, maxes = {}, {}
    rec = {"status": "ok", "counters": counters, "maxes": maxes, "nt": []}

    def bump(k, v=1):
        counters[k] = counters.get(k, 0) + v

    b = progcase.Built(prog).build_sources()
    try:
        b.eval_pd()
        b.eval_dx(method)
    except Exception:
        return {"status": "refused", "counters": {"build_refused": 1}}
    q = b.out_dx
    flags = {"order": b.out_pd.order, "index": b.out_pd.index}
    nodes = len(list(q.expr.walk()))
    # linear in the plan size; nested optimizations started by a rule (eager quantile computes of set_index / sort_values, one per
    # such node) count against it, so the factor is generous - an exponential blow-up (2^depth) still exceeds it at depth ~12
    budget = 1000 + 400 * nodes
    viol = None
    names = {}
    M.RULES.reset()
    for stage in STAGES:
        M.STEPS.reset(budget=budget)
        try:
            e = optimize_until(q.expr, stage)
            names[stage] = e._name
        except M.StepBudgetExceeded as ex:
            viol = {"oracle": "step_budget", "symptom": "budget-exceeded", "stage": stage, "detail": str(ex), "nodes": nodes}
            break
        except RuntimeError as ex:
            if "does not converge" in str(ex):
                viol = {"oracle": "convergence", "symptom": "optimizer-does-not-converge", "stage": stage, "detail": str(ex)[:300]}
                break
            M.STEPS.reset()
            return {"status": "undecided", "counters": {"optimize_raises": 1}}  # C01's matter
        except Exception:
            M.STEPS.reset()
            return {"status": "undecided", "counters": {"optimize_raises": 1}}
        finally:
            c = M.STEPS.counts
            bump("optimize_calls")
            for k in ("simplify_once", "lower_once"):
                r = c.get(k, 0) / max(1, nodes)
                maxes[f"{k}_per_node"] = max(maxes.get(f"{k}_per_node", 0), round(r, 2))
                maxes[f"{k}_calls"] = max(maxes.get(f"{k}_calls", 0), c.get(k, 0))
    M.STEPS.reset()
    fired = sum(M.RULES.snapshot().values())
    bump("rule_firings", fired)
    if viol is None:
        # determinism: same objects again, after gc, and rebuilt from scratch (fresh source objects, same data)
        try:
            o1 = q.expr.optimize()
            n1, t1 = o1._name, o1.tree_repr()
            o2 = q.expr.optimize()
            gc.collect()
            o3 = q.expr.optimize()
            b2 = progcase.Built(prog).build_sources()
            b2.eval_dx(method)
            o4 = b2.out_dx.expr.optimize()
            bump("repetitions_compared", 3)
            # a persisted value is named after its DATA; where the program leaves the row order undefined (tied sort, shuffle)
            # two builds may legitimately persist differently ordered rows: the rebuilt plan is then not comparable
            ns_ = len(prog["sources"])
            persist_of_unordered = any(st_["op"] == "persist" and not b.pd_vals[st_["in"][0]].order for st_ in prog["steps"])
            for tag, o in (("repeat", o2), ("after-gc", o3)) + ((("rebuilt", o4),) if not persist_of_unordered else ()):
                if o._name != n1 or o.tree_repr() != t1:
                    viol = {"oracle": "deterministic_plan", "symptom": "plan-differs-between-repetitions", "which": tag, "a": t1[:600], "b": o.tree_repr()[:600]}
                    break
            if viol is None and names.get("fused") != n1:
                viol = {"oracle": "deterministic_plan", "symptom": "optimize-differs-from-optimize_until-fused"}
        except Exception as ex:
            return {"status": "undecided", "counters": {"optimize_raises": 1}}
    if viol is None:
        # idempotence: optimizing an optimized collection leaves its result unchanged and never raises
        with dask.config.set({"dataframe.shuffle.method": method}):
            try:
                with M.Guard():
                    r1 = concat_parts(exec_ref(q.optimize().expr))
            except Exception:
                r1 = None
                bump("first_optimize_result_raises")
            if r1 is not None:
                try:
                    oo = q.optimize().optimize()
                    with M.Guard():
                        r2 = concat_parts(exec_ref(oo.expr))
                    bump("idempotence_compared")
                    d = compare(r2, r1, order=flags["order"], index=flags["index"], dtypes=True)
                    if d:
                        viol = dict(d, oracle="idempotent_result", stage="optimize(optimize(q))")
                    for stage in ("simplified-logical", "physical", "fused"):
                        e = optimize_until(q.optimize().expr, stage)
                        bump("nested_stage_runs")
                    if viol is None:
                        fz = q.optimize(fuse=False).optimize(fuse=True)
                        with M.Guard():
                            r3 = concat_parts(exec_ref(fz.expr))
                        d = compare(r3, r1, order=flags["order"], index=flags["index"], dtypes=True)
                        if d:
                            viol = dict(d, oracle="idempotent_result", stage="optimize(fuse=True)(optimize(fuse=False)(q))")
                except Exception as ex:
                    viol = dict(progcase.exc_info(ex), oracle="nested_optimize_runs", stage="optimize(optimize(q))")
    if fired:
        rec["nt"] = [shash(prog)]
    if viol:
        viol["ops"] = programs.program_ops(prog)
        viol["src"] = programs.program_source(prog)
        rec["status"] = "violation"
        rec["viol"] = viol
        rec["case"] = {"prog": prog, "shuffle": method}
    if case.get("gen") and case["gen"][1] in (2, 9):
        rec["sample"] = {"program": programs.program_source(prog), "nodes": nodes, "budget": budget, "steps": dict(maxes)}
    return rec
