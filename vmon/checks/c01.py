"""C01 - optimization never changes what a query computes.

Events: results of optimize_until(q, S) for every stage S, of FrameBase.compute(), and of every single
rewrite-rule firing (before / after), against the query lowered without any optimization.
Oracle: exec_ref(q) (lower_completely + synchronous execution) is the model; comparator under the
program's order / index flags.
"""
import dask

from vmon import monitors as M
from vmon import progcase, programs
from vmon.compare import compare
from vmon.execs import concat_parts, exec_ref
from vmon.util import derive_rng, shash

LEVEL = "exploration"
MANIFEST = {
    "text": "Seeded random query DAGs over the public API (chains, shared sub-expressions, multi-input merges/concats/binary ops; numeric, bool, string, categorical, datetime columns with nulls and duplicate keys; 1-7 partitions incl. empty ones, known and unknown divisions) are executed on the real optimizer at every stage (simplified-logical, tuned-logical, physical, simplified-physical, fused), through compute(), with tasks and disk shuffles, and compared with the same query lowered without optimization. A rule monitor wrapped around every class's _simplify_*/_tune_*/_lower records which rules fired under which parent, and in validate mode executes before/after of each firing (post-condition on the real rule). The ~170 targeted collections of the plan audits (division-deriving operators, keyword surface of the front end, every join lowering) are compared optimized-vs-unoptimized at every stage too.",
    "note": "Sampled, not exhaustive: held on the programs generated for the seed. Trusts dask's synchronous scheduler, our comparator and flag bookkeeping (order/index undefined after shuffles, joins, reset_index, tied sorts). A query whose unoptimized lowering itself raises is undecided, not judged.",
    "technique": "runtime monitoring: differential execution of every optimizer stage against the unoptimized lowering + per-rule-firing post-condition monitor (M-rule) attached by reflection to all Expr subclasses",
    "design_ref": "DESIGN.md section 4, C01",
}
RULE = ("typed random program generator (vmon/programs.py) over seeded tables and layouts; every stage compared with exec_ref; "
        "non-trivial = at least one rewrite rule fired AND the optimized plan differs from the unoptimized lowering; distinct by program hash")
ASSUMPTIONS = ["row order / index labels are compared only where the program's flags say the query defines them",
               "float reductions compared with rtol 1e-9", "programs whose unoptimized lowering raises are undecided"]

STAGES = ["simplified-logical", "tuned-logical", "physical", "simplified-physical", "fused"]

CONFIG = {
    "quick": {"budget_s": 55, "programs": 1400, "validate_every": 8, "case_timeout_s": 60},
    "thorough": {"budget_s": 660, "programs": 8000, "validate_every": 2, "case_timeout_s": 120},
}


def floors(tier):
    return {"cases": 500 if tier == "quick" else 8000, "nontrivial": 250, "set:rule_pairs": 60, "stage_comparisons": 2000,
            "rule_firings": 3000, "rule_steps_validated": 150, "compute_path_compared": 300}


CANARIES = []


def cases(tier, seed):
    for c in CANARIES:
        yield dict(c)
    # the targeted collections of the plan audits (division-deriving operators, keyword surface of the front end)
    from vmon import planaudit
    from vmon.checks.c06 import TARGET_NAMES

    for name in sorted(TARGET_NAMES) + planaudit.sk_names():
        yield {"targeted": name}
    n = CONFIG[tier]["programs"]
    profiles = ["default", "default", "projection", "filter", "blockwise", "structure"]
    for i in range(n):
        yield {"gen": [seed, i], "profile": profiles[i % len(profiles)], "validate": i % CONFIG[tier]["validate_every"] == 0}


def setup_worker(tier, seed):
    M.RULES.install()
    M.STEPS.install()


def get_prog(case):
    if "prog" in case:
        return case["prog"]
    return progcase.gen_prog(("C01",) + tuple(case["gen"]), profile=case.get("profile", "default"))


def run_targeted(case):
    """optimized-at-every-stage vs unoptimized execution of one targeted collection (no pandas interpreter: the row order is
    compared as a multiset; index labels are compared unless the plan contains an operation that leaves them undefined)"""
    import os

    from dask_expr._expr import optimize_until

    from vmon import planaudit

    name = case["targeted"]
    tg = planaudit.targeted(os.environ.get("VMON_SCRATCH"))
    if name not in tg:
        return {"status": "undecided", "counters": {"unknown_target": 1}}
    try:
        # built under the same configuration it is planned and run with (a join caches planning decisions when it is built)
        with dask.config.set({"dataframe.shuffle.method": "tasks"}):
            q = tg[name]()
    except Exception as ex:
        return {"status": "refused", "counters": {"build_refused": 1}, "sets": {"build_refusals": [f"{name}:{type(ex).__name__}"]}}
    counters = {"targeted_cases": 1}
    rec = {"status": "ok", "counters": counters, "sets": {}, "nt": []}
    viol = None
    with dask.config.set({"dataframe.shuffle.method": "tasks"}):
        try:
            with M.Guard():
                ref = concat_parts(exec_ref(q.expr))
        except Exception as e:
            return {"status": "undecided", "counters": {"baseline_raises": 1}, "sets": {"baseline_errors": [f"{name}:{type(e).__name__}"]}}
        classes = set(progcase.plan_classes(q.expr))
        index_defined = not (classes & {"Merge", "JoinRecursive", "Shuffle", "ResetIndex", "DropDuplicates", "Unique", "MergeAsof", "Sample"}) and "ignore_index" not in name
        stage = None
        try:
            for stage in STAGES:
                e = optimize_until(q.expr, stage)
                with M.Guard():
                    got = concat_parts(exec_ref(e))
                counters["stage_comparisons"] = counters.get("stage_comparisons", 0) + 1
                d = compare(got, ref, order=False, index=index_defined, dtypes=True)
                if d:
                    viol = dict(d, oracle="opt_vs_ref", stage=stage, classes=progcase.plan_classes(e))
                    break
            if viol is None and hasattr(q, "compute"):
                stage = "compute"
                got = q.compute(scheduler="sync")
                counters["compute_path_compared"] = counters.get("compute_path_compared", 0) + 1
                d = compare(got, ref, order=False, index=index_defined, dtypes=True)
                if d:
                    viol = dict(d, oracle="compute_vs_ref", stage="compute")
        except Exception as ex:
            viol = dict(progcase.exc_info(ex), oracle="opt_runs", stage=stage)
    if viol:
        viol["ops"] = [name]
        viol["src"] = [f"targeted:{name}"]
        rec["status"] = "violation"
        rec["viol"] = viol
        rec["case"] = {"targeted": name}
    return rec


def run_case(case):
    from dask_expr._expr import optimize_until

    if "targeted" in case:
        return run_targeted(case)
    prog = get_prog(case)
    rng = derive_rng("C01run", case.get("gen"), shash(prog))
    method = case.get("shuffle") or rng.choice(["tasks", "disk"])
    counters = {}
    sets = {}
    rec = {"status": "ok", "counters": counters, "sets": sets, "nt": []}

    def bump(k, v=1):
        counters[k] = counters.get(k, 0) + v

    b = progcase.Built(prog).build_sources()
    if not b.fidelity_ok():
        return {"status": "undecided", "counters": {"source_fidelity_failed": 1}}
    try:
        b.eval_pd()
    except Exception:
        return {"status": "undecided", "counters": {"pandas_refused": 1}}
    try:
        b.eval_dx(method)
    except Exception as e:
        return {"status": "refused", "counters": {"build_refused": 1}, "sets": {"build_refusals": [f"{type(e).__name__}:{str(e)[:50]}"]}}
    flags = {"order": b.out_pd.order, "index": b.out_pd.index}
    q = b.out_dx
    viol = None
    with dask.config.set({"dataframe.shuffle.method": method}):
        with M.Guard():
            try:
                ref = concat_parts(exec_ref(q.expr))
                ref_name = q.expr.lower_completely()._name
            except Exception as e:
                return {"status": "undecided", "counters": {"baseline_raises": 1}, "sets": {"baseline_errors": [f"{progcase.exc_site(e)}:{type(e).__name__}"]}}
        M.RULES.reset()
        M.RULES.validate = False
        fired_any = False
        plan_changed = False
        for stage in STAGES:
            try:
                e = optimize_until(q.expr, stage)
                with M.Guard():
                    got = concat_parts(exec_ref(e))
                    low_name = e.lower_completely()._name
            except Exception as ex:
                viol = dict(progcase.exc_info(ex), oracle="opt_runs", stage=stage)
                break
            bump("stage_comparisons")
            plan_changed = plan_changed or low_name != ref_name
            d = compare(got, ref, order=flags["order"], index=flags["index"], dtypes=True)
            if d:
                viol = dict(d, oracle="opt_vs_ref", stage=stage, classes=progcase.plan_classes(e))
                break
        ev = M.RULES.snapshot()
        bump("rule_firings", sum(ev.values()))
        fired_any = bool(ev)
        sets["rule_pairs"] = sorted({f"{k[0]}:{k[1]}<{k[3]}" for k in ev})
        sets["rules_fired"] = sorted({f"{k[0]}:{k[1]}" for k in ev})
        sets["expr_classes"] = progcase.plan_classes(q.expr)
        if viol is None:
            # the user-facing path: FrameBase.compute() (wraps multi-partition frames in a Repartition before optimizing)
            try:
                got = q.compute(scheduler="sync")
                bump("compute_path_compared")
                d = compare(got, ref, order=flags["order"], index=flags["index"], dtypes=True)
                if d:
                    viol = dict(d, oracle="compute_vs_ref", stage="compute")
            except Exception as ex:
                viol = dict(progcase.exc_info(ex), oracle="opt_runs", stage="compute")
        if viol is None and case.get("validate"):
            # second pass: per-rule-firing post-condition (after the end-to-end comparison: observer effect on caches)
            M.RULES.reset()
            M.RULES.validate = True
            M.RULES.flags = dict(flags) if (flags["order"] and flags["index"]) else {"order": False, "index": flags["index"] and all(v.index for v in b.pd_vals)}
            if not all(v.order for v in b.pd_vals):
                M.RULES.flags["order"] = False
            if not all(v.index for v in b.pd_vals):
                M.RULES.flags["index"] = False
            M.RULES.max_validate = 40
            try:
                optimize_until(q.expr, "fused")
            except Exception:
                pass
            M.RULES.validate = False
            bump("rule_steps_validated", M.RULES.validated)
            bump("rule_steps_undecided", M.RULES.undecided)
            if M.RULES.violations:
                viol = dict(M.RULES.violations[0], stage="rule")
    if fired_any and plan_changed:
        rec["nt"] = [shash(prog)]
    if viol:
        viol["ops"] = programs.program_ops(prog)
        viol["shuffle"] = method
        viol.setdefault("classes", progcase.plan_classes(q.expr))
        viol["src"] = programs.program_source(prog)
        rec["status"] = "violation"
        rec["viol"] = viol
        rec["case"] = {"prog": prog, "shuffle": method, "validate": bool(case.get("validate"))}
    if case.get("gen") and case["gen"][1] in (3, 11, 29):
        rec["sample"] = {"program": programs.program_source(prog), "shuffle": method, "flags": flags, "rules_fired": sets["rules_fired"][:12]}
    return rec
