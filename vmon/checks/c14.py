"""C14 - blockwise fusion only changes task granularity.

Events: npartitions / divisions / meta and every output partition of optimize(fuse=True) versus optimize(fuse=False).
Oracle: the unfused plan, partition by partition (exact; multiset inside disk-shuffled partitions).
Monitor: every Fused group of the fused plan (size, nested, broadcast deps, external deps, number of consumers).
"""
import dask
import pandas as pd

from vmon import monitors as M
from vmon import progcase, programs
from vmon.compare import compare, dkind
from vmon.execs import exec_graph, exec_ordered, graph_of
from vmon.util import derive_rng, shash

LEVEL = "exploration"
MANIFEST = {
    "text": "Seeded random programs biased to partitionwise DAG shapes (chains, diamonds/shared nodes, mixed partition counts, broadcast single-partition and scalar operands, blockwise segments between non-blockwise stages, several consumers) are optimized with and without blockwise fusion on the real code; the two plans must report equal npartitions, divisions and schema and produce identical partitions one by one. A monitor over the fused plan records every Fused group (size, nesting, broadcast and external dependencies); the fused plan is additionally audited with M-plan and M-graph and executed task by task in an adversarial order. A family 'already fused chain + second consumer of an inner member' and single-partition fused groups broadcast into multi-partition groups are included.",
    "note": "Sampled programs. Partition contents compared exactly in order, except inside disk-shuffled plans where rows of one partition are compared as a multiset.",
    "technique": "runtime monitoring: differential execution fused vs unfused, partition by partition, with a Fused-group structure monitor",
    "design_ref": "DESIGN.md section 4, C14",
}
RULE = ("programs from the typed generator with the 'blockwise' / 'default' / 'structure' profiles; non-trivial = fused plan contains >=1 Fused group of size >= 2; "
        "distinct by program hash")
ASSUMPTIONS = ["rows inside a partition produced after a disk shuffle are unordered"]
CONFIG = {
    "quick": {"budget_s": 45, "programs": 1400, "case_timeout_s": 60},
    "thorough": {"budget_s": 480, "programs": 8000, "case_timeout_s": 120},
}


def floors(tier):
    return {"cases": 400, "nontrivial": 250, "fused_groups": 500, "groups_with_broadcast_dep": 15, "nested_groups": 1, "partitions_compared": 1500,
            "groups_feeding_several_consumers": 10}


def _tg_base(n=40, k=4):
    import dask_expr as dx
    import numpy as np

    pdf = pd.DataFrame({"a": np.arange(n) % 7, "b": np.arange(n) * 1.5, "c": np.arange(n)[::-1] + 0.0, "rid": np.arange(n)})
    return pdf, dx.from_pandas(pdf, npartitions=k)


def _tg_nested_diff_positions():
    pdf, d = _tg_base()
    inner = ((d.b + 1) * 2).optimize()
    return (d.c - inner + 5).to_frame("v")


def _tg_nested_two_inner():
    pdf, d = _tg_base()
    i1 = (d.b * 2 + d.a).optimize()
    i2 = (d.c - 1).optimize()
    return (d.rid + i2 - i1).to_frame("v")


def _tg_nested_frame():
    pdf, d = _tg_base()
    inner = d.assign(z=d.b + d.c).optimize()
    other = d[["a"]].rename(columns={"a": "aa"})
    return inner.assign(w=other.aa * 2)[["z", "w", "rid"]]


def _tg_nested_bcast():
    pdf, d = _tg_base()
    inner = (d.b - d.b.mean()).optimize()
    return (d.c * 0 + inner + d.a.max()).to_frame("v")


def _tg_double_optimize():
    pdf, d = _tg_base()
    x = (d[["a", "b"]] + 1).optimize()
    y = (x * 2).optimize()
    return (y - d[["a", "b"]]).assign(k=d.c)


def _tg_nested_one_partition_bcast():
    # a single-partition fused group used as a broadcast operand of a multi-partition group
    import dask_expr as dx

    pdf, d = _tg_base()
    s = dx.from_pandas(pd.Series([2.0], name="b"), npartitions=1)
    s1 = ((s + 1) * 2).optimize()
    return d[["b", "c"]] + s1.sum()


def _tg_nested_one_partition_series():
    # frame (3 partitions) + already optimized single-partition Series (aligned on the columns, broadcast to every partition)
    import dask_expr as dx

    pdf, d = _tg_base()
    s = dx.from_pandas(pd.Series([10.0, 20.0, 30.0], index=["a", "b", "c"]), npartitions=1)
    s1 = ((s + 1) * 2).optimize()
    return d[["a", "b", "c"]] + s1


def _reopt_family():
    """An already optimized (fused) chain x0 -> x1 -> ... -> xk used together with a second consumer of one of its INNER members
    x_j (taken from the unoptimized chain), for every j, several kinds of second consumer and several ways of combining."""
    import dask_expr as dx

    def chain(d, k):
        xs = [d[["a", "b", "c"]]]
        fns = [lambda v: v * 3, lambda v: v + 1, lambda v: v * 2, lambda v: v - 0.5]
        for i in range(k):
            xs.append(fns[i](xs[-1]))
        return xs

    consumers = {
        "repartition": lambda v: v.repartition(npartitions=2),
        "shuffle": lambda v: v.shuffle("a", npartitions=3),
        "cumsum": lambda v: v.cumsum(),
        "elemwise": lambda v: v + 100,
        "bcast_sum": lambda v: v - v.b.sum(),
        "partitions": lambda v: v.partitions[[1, 2]],
    }
    combiners = {
        "concat0": lambda top, other: dx.concat([top, other]),
        "concat0_rev": lambda top, other: dx.concat([other, top]),
        "add": lambda top, other: top + other,
    }
    out = []
    for k in (3, 4):
        for j in range(k):
            for cname, cons in consumers.items():
                for bname, comb in combiners.items():
                    if bname == "add" and cname in ("repartition", "shuffle", "partitions"):
                        continue  # alignment of differently partitioned frames is C02's matter

                    def build(k=k, j=j, cons=cons, comb=comb):
                        pdf, d = _tg_base()
                        xs = chain(d, k)
                        return comb(xs[-1].optimize(), cons(xs[j]))
                    build.__name__ = f"_tg_reopt_k{k}_j{j}_{cname}_{bname}"
                    out.append(build)
    return out


TARGETED = [_tg_nested_diff_positions, _tg_nested_two_inner, _tg_nested_frame, _tg_nested_bcast, _tg_double_optimize, _tg_nested_one_partition_bcast, _tg_nested_one_partition_series] + _reopt_family()


def cases(tier, seed):
    for i in range(len(TARGETED)):
        for method in ("tasks", "disk"):
            yield {"targeted": i, "shuffle": method}
    profiles = ["blockwise", "blockwise", "default", "structure", "blockwise", "projection"]
    for i in range(CONFIG[tier]["programs"]):
        yield {"gen": [seed, i], "profile": profiles[i % len(profiles)]}


def setup_worker(tier, seed):
    pass


def run_case(case):
    from dask_expr._expr import Fused

    counters = {}
    rec = {"status": "ok", "counters": counters, "nt": [], "sets": {}}

    def bump(k, v=1):
        counters[k] = counters.get(k, 0) + v

    if "targeted" in case:
        prog = {"targeted": TARGETED[case["targeted"]].__name__}
        rng = derive_rng("C14", prog["targeted"])
        method = case.get("shuffle") or "tasks"
        q = TARGETED[case["targeted"]]()

        class _B:  # flags of the targeted shapes: ordered, labelled
            class out_pd:
                index = True
            pd_vals = []
        b = _B()
    else:
        prog = case["prog"] if "prog" in case else progcase.gen_prog(("C14",) + tuple(case["gen"]), profile=case.get("profile", "blockwise"))
        b = progcase.Built(prog).build_sources()
        rng = derive_rng("C14", shash(prog))
        method = case.get("shuffle") or rng.choice(["tasks", "tasks", "disk"])
        try:
            b.eval_pd()
            b.eval_dx(method)
        except Exception:
            return {"status": "refused", "counters": {"build_refused": 1}}
        q = b.out_dx
    viol = None
    with dask.config.set({"dataframe.shuffle.method": method}):
        try:
            ou = q.expr.optimize(fuse=False)
            gu, ku, lu = graph_of(ou)
            pu = exec_graph(gu, ku)
        except Exception:
            return {"status": "undecided", "counters": {"unfused_raises": 1}}
        try:
            of = q.expr.optimize(fuse=True)
            gf, kf, lf = graph_of(of)
            pf = exec_graph(gf, kf)
        except Exception as ex:
            viol = dict(progcase.exc_info(ex), oracle="fused_runs")
        if viol is None:
            groups = [x for x in of.walk() if isinstance(x, Fused)]
            bump("fused_groups", len(groups))
            big = [g for g in groups if len(g.exprs) >= 2]
            # dependents of each group inside the fused plan
            deps_count = {}
            for x in of.walk():
                for d in x.dependencies():
                    deps_count[d._name] = deps_count.get(d._name, 0) + 1
            for g in groups:
                if any(isinstance(y, Fused) for y in g.exprs):
                    bump("nested_groups")
                ext = g.dependencies()
                if any(g._broadcast_dep(d) for d in ext):
                    bump("groups_with_broadcast_dep")
                if deps_count.get(g._name, 0) >= 2:
                    bump("groups_feeding_several_consumers")
                rec["sets"].setdefault("group_sizes", []).append(min(len(g.exprs), 12))
            if big:
                rec["nt"] = [shash(prog)]
            # declared structure and schema
            if of.npartitions != ou.npartitions:
                viol = {"oracle": "fused_structure", "symptom": "npartitions", "got": of.npartitions, "exp": ou.npartitions}
            elif _divs(of) != _divs(ou):
                viol = {"oracle": "fused_structure", "symptom": "divisions", "got": repr(of.divisions)[:200], "exp": repr(ou.divisions)[:200]}
            else:
                sv = _schema_diff(of._meta, ou._meta)
                if sv:
                    viol = dict(sv, oracle="fused_schema")
            if viol is None and len(pf) != len(pu):
                viol = {"oracle": "fused_partitions", "symptom": "partition-count", "got": len(pf), "exp": len(pu)}
            if viol is None:
                unordered = method == "disk" and any("DiskShuffle" in type(x).__name__ for x in lu.walk())
                for i, (a, c) in enumerate(zip(pf, pu)):
                    bump("partitions_compared")
                    # inside disk-shuffled plans row order is unspecified, and so are labels that were assigned in that
                    # order (reset_index after a tied sort): then only what the program defines is compared
                    d = compare(a, c, order=not unordered, index=(True if not unordered else b.out_pd.index and all(v.index for v in b.pd_vals)), exact=True, dtypes=True)
                    if d:
                        viol = dict(d, oracle="fused_partitions", part=i)
                        break
            if viol is None:
                probs, st = M.audit_plan(of, parts=pf)
                bump("plan_audits")
                probs_u, _ = M.audit_plan(ou, parts=pu)
                # only differences introduced by fusion are C14's matter (C06/C07 judge the plan audit itself)
                keyf = {(p_["oracle"], p_["symptom"]) for p_ in probs}
                keyu = {(p_["oracle"], p_["symptom"]) for p_ in probs_u}
                if keyf - keyu:
                    viol = dict([p_ for p_ in probs if (p_["oracle"], p_["symptom"]) in keyf - keyu][0], stage="fused-only")
            if viol is None:
                gp, gs = M.audit_graph(lf, check_pickle=True)
                bump("graph_audits")
                if gp:
                    viol = dict(gp[0], oracle="fused_graph")
            if viol is None and big and rng.random() < 0.3 and not (method == "disk"):
                # the inside of the fused plan executed in an adversarial order gives the same partitions
                try:
                    r = exec_ordered(gf, kf, policy="lifo", rng=rng, check_mutation=False)
                    bump("adversarial_order_runs")
                    for i, (a, c) in enumerate(zip(r["results"], pu)):
                        d = compare(a, c, order=True, index=True, exact=True, dtypes=True)
                        if d:
                            viol = dict(d, oracle="fused_partitions_lifo", part=i)
                            break
                except Exception as ex:
                    viol = dict(progcase.exc_info(ex), oracle="fused_runs_lifo")
    if viol:
        targeted = "targeted" in case
        viol["ops"] = [prog["targeted"]] if targeted else programs.program_ops(prog)
        viol["shuffle"] = method
        viol["src"] = [prog["targeted"]] if targeted else programs.program_source(prog)
        viol.setdefault("classes", progcase.plan_classes(q.expr))
        rec["status"] = "violation"
        rec["viol"] = viol
        rec["case"] = dict(case) if targeted else {"prog": prog, "shuffle": method}
    if case.get("gen") and case["gen"][1] in (1, 8):
        rec["sample"] = {"program": programs.program_source(prog), "shuffle": method, "fused_group_sizes": rec["sets"].get("group_sizes", [])}
    return rec


def _divs(e):
    return tuple(None if d is None or (isinstance(d, float) and d != d) else d for d in e.divisions)


def _schema_diff(a, c):
    if type(a) is not type(c):
        return {"symptom": "container-kind", "got": type(a).__name__, "exp": type(c).__name__}
    if isinstance(a, pd.DataFrame):
        if list(a.columns) != list(c.columns):
            return {"symptom": "column-labels", "got": list(map(str, a.columns)), "exp": list(map(str, c.columns))}
        for j in range(a.shape[1]):
            if dkind(a.iloc[:, j].dtype) != dkind(c.iloc[:, j].dtype):
                return {"symptom": "dtype-kind", "col": str(a.columns[j]), "got": str(a.iloc[:, j].dtype), "exp": str(c.iloc[:, j].dtype)}
    elif isinstance(a, pd.Series):
        if a.name != c.name and not (a.name != a.name and c.name != c.name):
            return {"symptom": "name", "got": repr(a.name), "exp": repr(c.name)}
        if dkind(a.dtype) != dkind(c.dtype):
            return {"symptom": "dtype-kind", "got": str(a.dtype), "exp": str(c.dtype)}
    if isinstance(a, (pd.DataFrame, pd.Series)) and list(a.index.names) != list(c.index.names):
        return {"symptom": "index-name", "got": repr(list(a.index.names)), "exp": repr(list(c.index.names))}
    return None
