"""C09 - task graphs are closed, acyclic, unambiguous and free of planner objects.

Events: the materialised graph dict of optimize_until(q, S) (lowered when S is logical), for every stage,
fuse on/off, shuffle method; including Fused inner graphs (audited in their own scope).
Oracle: M-graph (output keys defined, every key-like reference resolves, toposort succeeds, no Expr/FrameBase
object in any task, cloudpickle under 'dask-expr-no-serialize', no key defined twice differently) and complete
execution of all keys by our own scheduler.
"""
import dask

from vmon import monitors as M
from vmon import progcase, programs
from vmon.execs import exec_ordered
from vmon.util import derive_rng, shash

LEVEL = "exploration"
MANIFEST = {
    "text": "For seeded random programs plus targeted shapes (nested fused groups, broadcast dependencies inside fused groups, partition-filtered sources and shuffles, tree reductions with small split_every, staged task shuffles, broadcast joins, every repartition kind, cumulative ops, overlapping partitions, graphs imported via persist / from_delayed), the real graph of every optimizer stage x shuffle method is materialised and audited: output keys (name, 0..npartitions-1) defined, every reference that looks like a key resolves in its scope (Fused inner graphs in their own scope), toposort succeeds, no Expr/FrameBase instance in any task, cloudpickle succeeds with the no-serialize guard on, layers re-collected expression by expression never define one key twice with different tasks; finally all keys are executed by our own scheduler. The targeted collections of the plan audits are audited at every stage under both shuffle methods; a tuple labelled with the token of an expression of the plan counts as a key reference even if no task of that label exists.",
    "note": "'Looks like a key' = tuple whose head is the name of an expression of the plan or of a key in scope, followed by ints/strs; literal tuples in user kwargs cannot match because names carry 32-hex tokens. Sampled programs.",
    "technique": "runtime monitoring: structural auditor over the materialised task graphs of the real planner + full execution by an external scheduler",
    "design_ref": "DESIGN.md section 4, C09",
}
RULE = ("programs from the typed generator + targeted shapes, x 6 plan stages x {tasks, disk}; non-trivial = graph with >= 2 distinct expression layers "
        "and >= 1 inter-task reference checked; distinct by (program hash, stage, method)")
ASSUMPTIONS = ["dask.core.get_dependencies / toposort as the definition of key references and cycles"]
STAGES = ["logical", "simplified-logical", "tuned-logical", "physical", "simplified-physical", "fused"]
CONFIG = {
    "quick": {"budget_s": 45, "programs": 700, "case_timeout_s": 60},
    "thorough": {"budget_s": 480, "programs": 4000, "case_timeout_s": 120},
}


def floors(tier):
    return {"cases": 250, "graphs_audited": 2500, "tasks_audited": 60000, "refs_checked": 40000, "fused_inner_graphs": 2000, "nontrivial": 1500,
            "graphs_executed": 200, "set:layer_classes": 60}


def cases(tier, seed):
    for i, t in enumerate(TARGETED):
        yield {"targeted": i}
    # the targeted collections of the plan audits (division-deriving operators, keyword surface incl. every join lowering)
    from vmon import planaudit
    from vmon.checks.c06 import TARGET_NAMES

    for name in sorted(TARGET_NAMES) + planaudit.sk_names():
        yield {"targeted_name": name}
    profiles = ["default", "structure", "blockwise", "projection", "filter", "default"]
    for i in range(CONFIG[tier]["programs"]):
        yield {"gen": [seed, i], "profile": profiles[i % len(profiles)]}


def _t_base(n=40, k=6):
    import dask_expr as dx
    import numpy as np
    import pandas as pd

    pdf = pd.DataFrame({"a": np.arange(n) % 7, "b": np.arange(n) * 1.5, "c": np.arange(n) % 3, "rid": np.arange(n)}, index=pd.Index(np.arange(n), name="ix"))
    return pdf, dx.from_pandas(pdf, npartitions=k)


def _t_nested_fused():
    pdf, d = _t_base()
    x = (d.a + 1).to_frame().assign(z=d.b * 2)
    y = x[x.z > 3]
    return (y.a + y.z - y.a.mean()).to_frame()


def _t_bcast_in_fused():
    pdf, d = _t_base()
    s = d.b - d.b.mean()
    return d.assign(q=s, r=d.a.max())[["q", "r", "rid"]]


def _t_partitions_shuffle():
    pdf, d = _t_base()
    return d.shuffle("a", npartitions=6, max_branch=2).partitions[[0, 2, 3, 5]]


def _t_tree():
    pdf, d = _t_base(60, 12)
    return d.groupby("a").b.sum(split_every=2)


def _t_tree_scalar():
    pdf, d = _t_base(60, 12)
    return d.b.sum(split_every=3)


def _t_staged():
    pdf, d = _t_base(60, 9)
    return d.shuffle("a", max_branch=2)


def _t_bcast_join():
    import dask_expr as dx

    pdf, d = _t_base(60, 9)
    small = dx.from_pandas(pdf.iloc[:10][["a", "b"]].rename(columns={"b": "bb"}), npartitions=2)
    return d.merge(small, on="a", how="left", broadcast=True)


def _t_repart_div():
    pdf, d = _t_base()
    return d.repartition(divisions=[0, 7, 21, 39])


def _t_repart_more():
    pdf, d = _t_base()
    return d.clear_divisions().repartition(npartitions=11)


def _t_repart_size():
    pdf, d = _t_base()
    return d.repartition(partition_size="300B")


def _t_cum():
    pdf, d = _t_base()
    return d[["b", "a"]].cumsum()


def _t_overlap():
    pdf, d = _t_base()
    return d.b.rolling(3).sum().to_frame().assign(s=d.b.shift(2))


def _t_persist():
    pdf, d = _t_base()
    p = (d.a + 1).persist(scheduler="sync")
    return (p * 2).to_frame()


def _t_delayed():
    import dask_expr as dx

    pdf, d = _t_base()
    parts = d.to_delayed()
    r = dx.from_delayed(parts, meta=pdf.iloc[:0])
    return r[r.a > 2].b.sum()


def _t_setindex():
    pdf, d = _t_base()
    return d.set_index("b").loc[3:30]


def _t_sort():
    pdf, d = _t_base()
    return d.sort_values("c").head(5, compute=False)


def _t_merge_hash():
    pdf, d = _t_base()
    return d.merge(d[["a", "rid"]].rename(columns={"rid": "r2"}), on="a", broadcast=False)


def _t_concat():
    import dask_expr as dx

    pdf, d = _t_base()
    return dx.concat([d, d[d.a > 2]])


def _t_vc():
    pdf, d = _t_base()
    return d.a.value_counts(split_out=2)


def _t_two_repartitions_more():
    import dask_expr as dx

    pdf, d = _t_base(24, 2)
    u = d.clear_divisions()
    return dx.concat([u.repartition(npartitions=4), u.repartition(npartitions=5), u.repartition(npartitions=7)])


def _t_two_repartitions_str_index():
    import dask_expr as dx

    pdf, d = _t_base(24, 3)
    s = dx.from_pandas(pdf.set_index(pdf.rid.map(lambda v: "k%03d" % v)), npartitions=3)
    return dx.concat([s.repartition(npartitions=7), s.repartition(npartitions=8)])


def _t_two_shuffles_same_frame():
    import dask_expr as dx

    pdf, d = _t_base(40, 6)
    return dx.concat([d.shuffle("a", npartitions=3, max_branch=2), d.shuffle("a", npartitions=6, max_branch=2), d.shuffle("c", npartitions=6)])


def _t_two_tree_reductions():
    pdf, d = _t_base(60, 12)
    return d.b.sum(split_every=2) + d.b.sum(split_every=3) + d.b.sum()


def _t_two_setindex():
    import dask_expr as dx

    pdf, d = _t_base(40, 5)
    return dx.concat([d.set_index("c", npartitions=2), d.set_index("c", npartitions=4)])


def _pairs():
    """Sibling expressions over ONE frame that differ in a single parameter, combined in one graph: any helper key that
    does not depend on the parameter collides (the real code merges layers with toolz.merge, which overwrites silently)."""
    import dask_expr as dx

    pdf, d = _t_base(48, 6)
    u = d.clear_divisions()
    s = d.b
    out = {
        "quantile": lambda: s.quantile(0.9) - s.quantile(0.1),
        "quantile_list": lambda: dx.concat([s.quantile([0.1, 0.5]), s.quantile([0.2, 0.5])]),
        "frame_quantile": lambda: dx.concat([d[["a", "b"]].quantile(0.25), d[["a", "b"]].quantile(0.75)]),
        "rolling": lambda: s.rolling(2).sum() + s.rolling(3).sum(),
        "shift": lambda: s.shift(1) + s.shift(2) + s.shift(-1),
        "diff": lambda: s.diff(1) - s.diff(2),
        "nlargest": lambda: dx.concat([d.nlargest(2, "b"), d.nlargest(3, "b"), d.nsmallest(2, "b")]),
        "head": lambda: dx.concat([d.head(2, compute=False), d.head(5, npartitions=2, compute=False), d.tail(3, compute=False)]),
        "cum": lambda: d[["a", "b"]].cumsum() + d[["a", "b"]].cummax() + d[["a", "b"]].cumsum(skipna=False),
        "value_counts": lambda: dx.concat([d.a.value_counts(split_out=2), d.a.value_counts(split_out=3), d.a.value_counts(sort=False)]),
        "groupby_split": lambda: d.groupby("a").b.sum(split_out=2) + d.groupby("a").b.sum(split_out=1) + d.groupby("a").b.sum(split_every=2),
        "sum_split": lambda: s.sum(split_every=2) + s.sum(split_every=4) + s.mean(split_every=2),
        "shuffle_branch": lambda: dx.concat([d.shuffle("a", max_branch=2), d.shuffle("a", max_branch=3), d.shuffle("a", npartitions=4, max_branch=2)]),
        "repartition_div": lambda: dx.concat([d.repartition(divisions=[0, 10, 47]), d.repartition(divisions=[0, 20, 47]), d.repartition(divisions=[0, 10, 30, 47], force=True)]),
        "repartition_size": lambda: dx.concat([d.repartition(partition_size="300B"), d.repartition(partition_size="500B")]),
        "sort_np": lambda: dx.concat([d.sort_values("c", npartitions=2), d.sort_values("c", npartitions=3), d.sort_values("c", ascending=False)]),
        "merge_bcast": lambda: dx.concat([d.merge(d[["a"]].drop_duplicates(), on="a", broadcast=True), d.merge(d[["a"]].drop_duplicates(), on="a", broadcast=False)]),
        "merge_how": lambda: dx.concat([d.merge(d[["a", "rid"]].rename(columns={"rid": "r2"}), on="a", how="left", npartitions=2), d.merge(d[["a", "rid"]].rename(columns={"rid": "r2"}), on="a", how="left", npartitions=3)]),
        "map_overlap": lambda: s.map_overlap(lambda x: x.rolling(2).sum(), 1, 0, meta=s._meta) + s.map_overlap(lambda x: x.rolling(2).sum(), 2, 0, meta=s._meta),
        "loc": lambda: dx.concat([d.loc[5:20], d.loc[6:20], d.loc[5:21]]),
        "partitions": lambda: dx.concat([d.partitions[[0, 1]], d.partitions[[1, 2]], d.partitions[[1, 0]]]),
        "unknown_repartition": lambda: dx.concat([u.repartition(npartitions=7), u.repartition(npartitions=8), u.repartition(npartitions=13)]),
        "drop_duplicates": lambda: dx.concat([d[["a", "c"]].drop_duplicates(split_out=2), d[["a", "c"]].drop_duplicates(subset=["a"], split_out=2)]),
        "resample_like": lambda: dx.concat([d.set_index("c").b.to_frame(), d.set_index("c", npartitions=2).b.to_frame()]),
    }
    return out


PAIR_NAMES = ["quantile", "quantile_list", "frame_quantile", "rolling", "shift", "diff", "nlargest", "head", "cum", "value_counts", "groupby_split", "sum_split", "shuffle_branch",
              "repartition_div", "repartition_size", "sort_np", "merge_bcast", "merge_how", "map_overlap", "loc", "partitions", "unknown_repartition", "drop_duplicates", "resample_like"]


def _mk_pair(name):
    def f():
        return _pairs()[name]()
    f.__name__ = "_pair_" + name
    return f


def _t_preoptimized_operand():
    pdf, d = _t_base(40, 4)
    inner = ((d.b + 1) * 2).optimize()
    return (d.a - inner + 5).to_frame()


TARGETED = [_t_two_repartitions_more, _t_two_repartitions_str_index, _t_two_shuffles_same_frame, _t_two_tree_reductions, _t_two_setindex, _t_preoptimized_operand,
            _t_nested_fused, _t_bcast_in_fused, _t_partitions_shuffle, _t_tree, _t_tree_scalar, _t_staged, _t_bcast_join, _t_repart_div, _t_repart_more,
            _t_repart_size, _t_cum, _t_overlap, _t_persist, _t_delayed, _t_setindex, _t_sort, _t_merge_hash, _t_concat, _t_vc] + [_mk_pair(n) for n in PAIR_NAMES]


def run_case(case):
    from dask_expr._expr import optimize_until

    counters, sets = {}, {}
    rec = {"status": "ok", "counters": counters, "sets": sets, "nt": []}

    def bump(k, v=1):
        counters[k] = counters.get(k, 0) + v

    prog = None
    if "targeted_name" in case:
        import os

        from vmon import planaudit

        tg = planaudit.targeted(os.environ.get("VMON_SCRATCH"))
        try:
            with dask.config.set({"dataframe.shuffle.method": "tasks"}):
                q = tg[case["targeted_name"]]()
        except Exception:
            return {"status": "refused", "counters": {"build_refused": 1}}
        if not hasattr(q, "expr"):
            return {"status": "undecided", "counters": {"not_a_collection": 1}}
        tag = f"targeted:{case['targeted_name']}"
        rebuild = tg[case["targeted_name"]]
    elif "targeted" in case:
        try:
            q = TARGETED[case["targeted"]]()
        except Exception as ex:
            return {"status": "refused", "counters": {"build_refused": 1}}
        tag = f"targeted:{TARGETED[case['targeted']].__name__}"
    else:
        prog = case["prog"] if "prog" in case else progcase.gen_prog(("C09",) + tuple(case["gen"]), profile=case.get("profile", "default"))
        b = progcase.Built(prog).build_sources()
        try:
            b.eval_dx()
        except Exception:
            return {"status": "refused", "counters": {"build_refused": 1}}
        q = b.out_dx
        tag = shash(prog)
    rng = derive_rng("C09", tag)
    viol = None
    for method in ("tasks", "disk"):
        with dask.config.set({"dataframe.shuffle.method": method}):
            if "targeted_name" in case and method == "disk":
                # a collection is planned under the configuration it was built with (joins cache planning decisions at build time)
                try:
                    q = rebuild()
                except Exception:
                    continue
            for stage in STAGES:
                try:
                    e = optimize_until(q.expr, stage)
                    low = e.lower_completely()
                except Exception:
                    bump("plan_raises")
                    continue
                try:
                    probs, st = M.audit_graph(low)
                except Exception as ex:
                    if stage == "logical":
                        bump("query_refused_at_graph_time")  # the unoptimized query itself cannot be materialised: a refusal
                        break
                    viol = dict(progcase.exc_info(ex), oracle="graph_materialises", stage=stage)
                    break
                bump("graphs_audited")
                bump("tasks_audited", st["tasks"])
                bump("refs_checked", st["refs_checked"])
                bump("fused_inner_graphs", st["fused_inner_graphs"])
                sets.setdefault("layer_classes", set()).update(type(x).__name__ for x in low.walk())
                if len({x._name for x in low.walk()}) >= 2 and st["refs_checked"] >= 1:
                    rec["nt"].append(f"{tag}:{stage}:{method}")
                if probs:
                    viol = dict(probs[0], oracle="graph_audit", stage=stage, n_problems=len(probs))
                    break
                if stage in ("fused", "physical") and rng.random() < 0.5:
                    from dask.core import flatten

                    g = dict(low.__dask_graph__())
                    try:
                        exec_ordered(g, list(flatten(low.__dask_keys__())), policy="random", rng=rng, check_mutation=False)
                        bump("graphs_executed")
                    except Exception as ex:
                        # is it the graph, or does the query itself fail at run time?  compare with dask's own scheduler
                        try:
                            from dask.local import get_sync

                            get_sync(g, list(flatten(low.__dask_keys__())))
                            viol = dict(progcase.exc_info(ex), oracle="graph_executes_all_keys", stage=stage)
                            break
                        except Exception:
                            bump("query_fails_at_runtime")
        if viol:
            viol["shuffle"] = method
            break
    sets["layer_classes"] = sorted(sets.get("layer_classes", []))
    if viol:
        if prog is not None:
            viol["ops"] = programs.program_ops(prog)
            viol["src"] = programs.program_source(prog)
            rec["case"] = {"prog": prog}
        else:
            viol["src"] = [tag]
            rec["case"] = dict(case)
        viol["classes"] = sets["layer_classes"]
        rec["status"] = "violation"
        rec["viol"] = viol
    if case.get("targeted") == 0 or (case.get("gen") and case["gen"][1] == 4):
        rec["sample"] = {"query": tag if prog is None else programs.program_source(prog), "stages": STAGES, "methods": ["tasks", "disk"], "tasks_audited": counters.get("tasks_audited")}
    return rec
