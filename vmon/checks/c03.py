"""C03 - a filter keeps exactly the rows that satisfy the user's predicate.

Events: multiset of row ids returned by `...[pred]...` after optimize() (and unoptimized).
Oracle: pandas evaluation of the same predicate on the unfiltered data through the same program.
Workload: exhaustive predicate trees (shape x and/or labelling x leaf symbols up to renaming x leaf
negation) bound to concrete atoms by a seeded assignment, on the 81-row full factorial table of value
classes incl. NaN, in every context a filter can cross (projection, assign, rename, astype, fillna,
reset_index, sort, set_index, shuffle, repartition, second filter, shared consumer, merges of every
kind x predicate side x suffix collision, parquet readers).
"""
import itertools
import os
import shutil
import tempfile

import dask
import numpy as np
import pandas as pd

from vmon import monitors as M
from vmon.compare import compare
from vmon.tables import factorial_table
from vmon.util import derive_rng

LEVEL = "exploration"
MANIFEST = {
    "text": "Exhaustive enumeration of boolean predicate trees (all binary shapes with <=3 leaves in quick / <=4 in thorough, every and/or labelling, every leaf-symbol pattern up to renaming so repeated atoms are present, every leaf negation pattern) executed on the real optimizer over a full-factorial table (every valuation of the atoms and every null pattern), in the source context and rotating through 40+ contexts a filter can cross incl. the join legality table and both parquet readers; row-id multisets compared with pandas. Rule-firing monitor proves the push-down / factoring rules really fired. Contexts include value-changing casts below the filter, stacked filters whose other predicate is cumulative / shifted, reductions inside predicates over joins, and joins with one-sided suffixes with atoms on the right frame's colliding column.",
    "note": "Trusts pandas' evaluation of predicates and merges; join output order undefined so (rid_left, rid_right) multisets are compared. Symbols are bound to concrete atoms by a seeded assignment (one per tree in quick, three in thorough), not all assignments.",
    "technique": "runtime monitoring: exhaustive bounded predicate enumeration + row-id multiset oracle against pandas; M-rule firing monitor on rewrite_filters / Filter push-down rules",
    "design_ref": "DESIGN.md section 4, C03",
}
RULE = ("predicate trees enumerated exhaustively up to the tier's leaf bound; each run in the source context and in rotating contexts; "
        "non-trivial = case in which the optimizer actually moved/rewrote the filter (a filter-related rule fired or the predicate reached the reader) "
        "and the predicate keeps a proper non-empty subset of rows; distinct by (tree, atom binding, context)")
ASSUMPTIONS = ["pandas boolean semantics incl. NaN comparisons (False) and ~ on the comparison result", "join output order undefined -> multisets"]

CONFIG = {
    "quick": {"budget_s": 55, "maxleaves": 3, "sample4": 400, "bindings": 1, "case_timeout_s": 120},
    "thorough": {"budget_s": 600, "maxleaves": 4, "sample4": None, "bindings": 3, "case_timeout_s": 300},
}


def floors(tier):
    return {"cases": 400 if tier == "quick" else 5000, "nontrivial": 200, "set:contexts_fired": 20, "rule_or_factoring": 20,
            "rule_filter_squash": 5, "merge_pushdowns": 20, "parquet_absorbed": 4, "compared": 800}


# ---------------------------------------------------------------------------------------------
# tree enumeration
# ---------------------------------------------------------------------------------------------


def shapes(n):
    if n == 1:
        return ["L"]
    out = []
    for k in range(1, n):
        for a in shapes(k):
            for b in shapes(n - k):
                out.append((a, b))
    return out


def rgs(n):
    """restricted growth strings of length n: leaf labellings up to renaming"""
    def rec(prefix, m):
        if len(prefix) == n:
            yield tuple(prefix)
            return
        for v in range(m + 2):
            yield from rec(prefix + [v], max(m, v))
    if n == 0:
        yield ()
    else:
        yield from rec([0], 0)


def count_inner(shape):
    return 0 if shape == "L" else 1 + count_inner(shape[0]) + count_inner(shape[1])


def build(shape, conns, leaves, negs):
    """-> nested tuple tree; conns/leaves/negs are iterators"""
    if shape == "L":
        sym = next(leaves)
        t = ("atom", sym)
        return ("not", t) if next(negs) else t
    c = next(conns)
    return (c, build(shape[0], conns, leaves, negs), build(shape[1], conns, leaves, negs))


def all_trees(nleaves):
    for shape in shapes(nleaves):
        ni = count_inner(shape)
        for conns in itertools.product(("and", "or"), repeat=ni):
            for lab in rgs(nleaves):
                for negs in itertools.product((0, 1), repeat=nleaves):
                    yield build(shape, iter(conns), iter(lab), iter(negs))


# atoms: (name, columns used, function(frame, colmap) -> boolean series)
def _c(d, cm, name):
    return d[cm.get(name, name)]


LEFT_ATOMS = [
    ("x>2", ["x"], lambda d, cm: _c(d, cm, "x") > 2),
    ("y==0", ["y"], lambda d, cm: _c(d, cm, "y") == 0),
    ("z!=2", ["z"], lambda d, cm: _c(d, cm, "z") != 2),
    ("w.isin", ["w"], lambda d, cm: _c(d, cm, "w").isin(["ab"])),
    ("w.isna", ["w"], lambda d, cm: _c(d, cm, "w").isna()),
    ("z.notnull", ["z"], lambda d, cm: _c(d, cm, "z").notnull()),
    ("x<y", ["x", "y"], lambda d, cm: _c(d, cm, "x") < _c(d, cm, "y")),
    ("x<=1", ["x"], lambda d, cm: _c(d, cm, "x") <= 1),
    ("y>=2", ["y"], lambda d, cm: _c(d, cm, "y") >= 2),
    ("w==cd", ["w"], lambda d, cm: _c(d, cm, "w") == "cd"),
]
REDUCTION_ATOM = ("y>y.mean", ["y"], lambda d, cm: _c(d, cm, "y") > _c(d, cm, "y").mean())
RIGHT_ATOMS = [
    ("p>1", ["p"], lambda d, cm: _c(d, cm, "p") > 1),
    ("q==2", ["q"], lambda d, cm: _c(d, cm, "q") == 2),
    ("p.isna", ["p"], lambda d, cm: _c(d, cm, "p").isna()),
    ("q!=0", ["q"], lambda d, cm: _c(d, cm, "q") != 0),
    ("p<q", ["p", "q"], lambda d, cm: _c(d, cm, "p") < _c(d, cm, "q")),
]
# the right frame's `w` in merges where both sides have a `w` (only offered in those contexts)
RIGHT_W_ATOMS = [
    ("rw==cd", ["rw"], lambda d, cm: _c(d, cm, "rw") == "cd"),
    ("rw.isna", ["rw"], lambda d, cm: _c(d, cm, "rw").isna()),
]
RIGHT_REDUCTION_ATOM = ("q>q.mean", ["q"], lambda d, cm: _c(d, cm, "q") > _c(d, cm, "q").mean())
KEY_ATOMS = [
    ("key>1", ["key"], lambda d, cm: _c(d, cm, "key") > 1),
    ("key!=3", ["key"], lambda d, cm: _c(d, cm, "key") != 3),
    ("key.isin", ["key"], lambda d, cm: _c(d, cm, "key").isin([2, 4, 6])),
    ("key<=2", ["key"], lambda d, cm: _c(d, cm, "key") <= 2),
]
ATOMS = {a[0]: a for a in LEFT_ATOMS + RIGHT_ATOMS + KEY_ATOMS + RIGHT_W_ATOMS + [REDUCTION_ATOM, RIGHT_REDUCTION_ATOM]}


def pred_fn(tree, binding):
    """-> function(frame, colmap) building the boolean expression (works for pandas and dask)"""
    def ev(t, d, cm):
        if t[0] == "atom":
            return ATOMS[binding[t[1]]][2](d, cm)
        if t[0] == "not":
            return ~ev(t[1], d, cm)
        a, b = ev(t[1], d, cm), ev(t[2], d, cm)
        return (a & b) if t[0] == "and" else (a | b)
    return lambda d, cm=None: ev(tree, d, cm or {})


def tree_syms(t):
    if t[0] == "atom":
        return {t[1]}
    if t[0] == "not":
        return tree_syms(t[1])
    return tree_syms(t[1]) | tree_syms(t[2])


def strip_not(t):
    if t[0] == "atom":
        return t
    if t[0] == "not":
        return strip_not(t[1])
    return (t[0], strip_not(t[1]), strip_not(t[2]))


def tree_str(t, binding):
    if t[0] == "atom":
        return binding[t[1]]
    if t[0] == "not":
        return "~(" + tree_str(t[1], binding) + ")"
    return "(" + tree_str(t[1], binding) + (" & " if t[0] == "and" else " | ") + tree_str(t[2], binding) + ")"


# ---------------------------------------------------------------------------------------------
# contexts.  Each: f(lib, L, R, P) -> result frame holding 'rid' (and 'rid_r' for joins);
# lib is 'pd' or 'dx' for the few spellings that differ.
# ---------------------------------------------------------------------------------------------

PLAIN_CONTEXTS = {
    "source": lambda lib, d, r, P: d[P(d)],
    "project_after": lambda lib, d, r, P: d[P(d)][["rid", "x"]],
    "project_before": lambda lib, d, r, P: (lambda e: e[P(e)])(d[["x", "y", "z", "w", "rid", "key"]]),
    "project_series": lambda lib, d, r, P: d[P(d)]["rid"].to_frame(),
    "assign_new": lambda lib, d, r, P: (lambda e: e[P(e)])(d.assign(q=d.x + 1)),
    "assign_overwrite": lambda lib, d, r, P: (lambda e: e[P(e)])(d.assign(x=d.x + 1)),
    "assign_after": lambda lib, d, r, P: d[P(d)].assign(q=1),
    "rename": lambda lib, d, r, P: (lambda e: e[P(e, {"x": "X", "w": "W"})])(d.rename(columns={"x": "X", "w": "W"})),
    "astype": lambda lib, d, r, P: (lambda e: e[P(e)])(d.astype({"y": "float32", "key": "float64"})),
    "fillna": lambda lib, d, r, P: (lambda e: e[P(e)])(d.fillna({"x": 1.0, "y": 0.0})),
    "fillna_scalar": lambda lib, d, r, P: (lambda e: e[P(e)])(d[["x", "y", "z", "rid", "key"]].fillna(2.0).assign(w=d.w)),
    "reset_index": lambda lib, d, r, P: (lambda e: e[P(e)])(d.reset_index()),
    "reset_index_pred_on_index": lambda lib, d, r, P: (lambda e: e[P(e) & (e.ix > 40)])(d.reset_index()),
    "reset_index_drop": lambda lib, d, r, P: (lambda e: e[P(e)])(d.reset_index(drop=True)),
    "sort_values": lambda lib, d, r, P: (lambda e: e[P(e)])(d.sort_values("rid", ascending=False)),
    "set_index": lambda lib, d, r, P: (lambda e: e[P(e, {})])(d.set_index("u")).reset_index(drop=True),
    "shuffle": lambda lib, d, r, P: (lambda e: e[P(e)])(d.shuffle("key") if lib == "dx" else d),
    "repartition": lambda lib, d, r, P: (lambda e: e[P(e)])(d.repartition(npartitions=2) if lib == "dx" else d),
    "second_filter": lambda lib, d, r, P: (lambda e: e[P(e)])(d[d.key > 0]),
    "second_filter_after": lambda lib, d, r, P: (lambda e: e[e.key > 0])(d[P(d)]),
    "three_filters": lambda lib, d, r, P: (lambda e: e[e.key < 4])((lambda e: e[P(e)])(d[d.key > 0])),
    "elemwise": lambda lib, d, r, P: (lambda e: e[P(e)])(d[["x", "y", "z", "rid", "key"]].abs().assign(w=d.w)),
    "shared_consumer": lambda lib, d, r, P: (lambda e: _concat(lib, [e[P(e)].assign(m=1), e.assign(m=0)]))(d.assign(q=d.x * 2)),
    "shared_consumer_proj": lambda lib, d, r, P: (lambda e: _concat(lib, [e[P(e)][["rid", "x"]], e[["rid", "x"]]]))(d[["x", "y", "z", "w", "rid", "key"]]),
    "shared_consumer_agg": lambda lib, d, r, P: (lambda e: e[P(e)].assign(tot=e.rid.sum()))(d.assign(q=d.x * 2)),
    "dropna_then": lambda lib, d, r, P: (lambda e: e[P(e)])(d.dropna(subset=["z"])),
    "then_series": lambda lib, d, r, P: d[P(d)].rid.to_frame(),
    "series_filter": lambda lib, d, r, P: d.rid[P(d)].to_frame(),
    "concat_filter": lambda lib, d, r, P: (lambda e: e[P(e)])(_concat(lib, [d, d])),
    "clip_round": lambda lib, d, r, P: (lambda e: e[P(e)])(d.assign(x=d.x.clip(0, 2.5).round())),
    # value-changing casts below the filter: the predicate must see the cast values
    "astype_bool": lambda lib, d, r, P: (lambda e: e[P(e)])(d.astype({"y": "bool"})),
    "astype_int_trunc": lambda lib, d, r, P: (lambda e: e[P(e)])(d.assign(x=d.x.fillna(0.0) * 0.75).astype({"x": "int64"})),
    # stacked filters whose other predicate is not element-wise (it depends on which rows the inner filter kept)
    "stacked_cumsum_outer": lambda lib, d, r, P: (lambda e: e[e.rid.cumsum() > 300])(d[P(d)]),
    "stacked_shift_outer": lambda lib, d, r, P: (lambda e: e[e.rid.shift(1) > 20])(d[P(d)]),
    "stacked_diff_outer": lambda lib, d, r, P: (lambda e: e[e.rid.diff() > 1])(d[P(d)]),
    "stacked_cumsum_inner": lambda lib, d, r, P: (lambda e: e[P(e)])(d[d.rid.cumsum() > 300]),
    "stacked_cumcount_and": lambda lib, d, r, P: (lambda e: e[P(e) & (e.rid.cumsum() > 300)])(d[d.key > 0]),
    "replace_isin": lambda lib, d, r, P: (lambda e: e[P(e)])(d.assign(y=d.y.replace(0.0, 2.0))),
}


def _concat(lib, frames):
    if lib == "pd":
        return pd.concat(frames)
    import dask_expr as dx

    return dx.concat(frames)


HOWS = ["inner", "left", "right", "outer", "leftsemi"]
SIDES = ["left", "right", "both", "key"]


def merge_context(how, side, collision, other_consumer, where="after", suffixes=None):
    """Filter above a merge.  L: x,y,z,w,rid,key ; R: key,p,q,(w if collision),rid_r"""
    def f(lib, d, r, P):
        rr = r if collision else r.drop(columns=["w"])
        ll = d
        if how == "leftsemi":
            if lib == "pd":
                m = ll[ll.key.isin(rr.key)]
            else:
                m = ll.merge(rr, on="key", how="leftsemi")
            cm = {}
        else:
            if suffixes:
                m = ll.merge(rr, on="key", how=how, suffixes=tuple(suffixes))
                cm = {"w": "w" + suffixes[0], "rw": "w" + suffixes[1]}
            else:
                m = ll.merge(rr, on="key", how=how)
                cm = {"w": "w_x", "rw": "w_y"} if collision else {}
        out = m[P(m, cm)]
        if other_consumer:
            # the merged (filtered-from) frame has another consumer
            return _concat(lib, [out.assign(m=1), m.assign(m=0)])
        return out
    return f


def parquet_context(fs, user_filters, columns):
    def f(lib, d, r, P, path=None):
        if lib == "pd":
            e = d
            if user_filters:
                e = e[e.key >= 1]
        else:
            import dask_expr as dx

            kw = {"filesystem": fs}
            if user_filters:
                kw["filters"] = [("key", ">=", 1)]
            e = dx.read_parquet(path, **kw)
        out = e[P(e)]
        if columns:
            out = out[["rid", "x"]]
        return out
    return f


def contexts_for(tier):
    ctx = dict(PLAIN_CONTEXTS)
    for how in HOWS:
        for side in SIDES:
            if how == "leftsemi" and side in ("right", "both"):
                continue
            for collision in (False, True):
                for oc in (False, True):
                    ctx[f"merge:{how}:{side}:{'coll' if collision else 'nocoll'}:{'shared' if oc else 'single'}"] = merge_context(how, side, collision, oc)
    for how in ("inner", "left", "right", "outer"):
        for side in ("left", "right", "both"):
            for sfx in (("_l", ""), ("", "_r")):
                ctx[f"merge:{how}:{side}:collsfx{'L' if sfx[0] else 'R'}:single"] = merge_context(how, side, True, False, suffixes=sfx)
    for fs in ("fsspec", "arrow"):
        for uf in (False, True):
            for cols in (False, True):
                ctx[f"parquet:{fs}:{'userfilter' if uf else 'nofilter'}:{'cols' if cols else 'all'}"] = parquet_context(fs, uf, cols)
    return ctx


def atom_pool(ctxname, rng, allow_reduction):
    if ctxname.startswith("merge:"):
        side = ctxname.split(":")[2]
        how = ctxname.split(":")[1]
        if side == "left":
            pool = LEFT_ATOMS
        elif side == "right":
            pool = RIGHT_ATOMS
        elif side == "key":
            pool = KEY_ATOMS
        else:
            pool = LEFT_ATOMS + RIGHT_ATOMS + KEY_ATOMS
        pool = list(pool)
        coll = ctxname.split(":")[3]
        if coll != "nocoll" and side in ("right", "both") and how != "leftsemi":
            pool += RIGHT_W_ATOMS
        if allow_reduction and side in ("left", "both"):
            pool.append(REDUCTION_ATOM)
        if allow_reduction and side in ("right", "both") and how != "leftsemi":
            pool.append(RIGHT_REDUCTION_ATOM)
        return [a[0] for a in pool]
    pool = [a[0] for a in LEFT_ATOMS + KEY_ATOMS]
    if ctxname.startswith("parquet"):
        if rng.random() < 0.7:
            # comparisons column-vs-literal: what the reader can absorb
            return ["x>2", "y==0", "z!=2", "x<=1", "y>=2", "key>1", "key!=3", "key<=2", "w==cd"]
        return pool
    if allow_reduction:
        pool = pool + [REDUCTION_ATOM[0]]
    return pool


def right_table():
    n = 24
    r = np.random.RandomState(7)
    p = r.randint(0, 4, n).astype(float)
    p[r.rand(n) < 0.25] = np.nan
    w = np.array(r.choice(["ab", "cd", "zz"], n), dtype=object)
    w[r.rand(n) < 0.2] = None
    return pd.DataFrame({"key": r.randint(2, 8, n), "p": p, "q": r.randint(0, 3, n).astype(float), "w": pd.array(w, dtype="str"), "rid_r": np.arange(n) + 1000})


def left_table():
    df = factorial_table()
    df["u"] = (df["rid"] * 37) % 101  # unique, for set_index
    df.index = pd.Index(df["rid"].to_numpy() * 2, name="ix")
    return df


# ---------------------------------------------------------------------------------------------


def cases(tier, seed):
    c = CONFIG[tier]
    ctxnames = sorted(contexts_for(tier))
    i = 0
    # canaries for listed findings
    yield {"canary": "arrow-ne-nulls", "tree": ["atom", 0], "binding": {"0": "z!=2"}, "ctx": ["parquet:arrow:nofilter:all"], "seed": seed}
    for L in range(1, c["maxleaves"] + 1):
        for t in all_trees(L):
            yield {"tree": t, "L": L, "i": i, "seed": seed, "nb": c["bindings"]}
            i += 1
    if c["maxleaves"] < 4 and c["sample4"]:
        rng = derive_rng("C03-sample4", seed)
        t4 = list(all_trees(4))
        for t in rng.sample(t4, c["sample4"]):
            yield {"tree": t, "L": 4, "i": i, "seed": seed, "nb": 1}
            i += 1


_STATE = {}


def setup_worker(tier, seed):
    M.RULES.install()
    import dask_expr as dx

    L, R = left_table(), right_table()
    _STATE["L"], _STATE["R"] = L, R
    _STATE["dL"] = dx.from_pandas(L, npartitions=3, sort=False)
    _STATE["dR"] = dx.from_pandas(R, npartitions=2, sort=False)
    base = os.environ.get("VMON_SCRATCH") or tempfile.mkdtemp(prefix="vmon-c03-")
    path = os.path.join(base, f"pq-{os.getpid()}")
    dx.from_pandas(L.reset_index(drop=True), npartitions=3, sort=False).to_parquet(path, write_index=False)
    _STATE["pq"] = path
    # the pandas side of every oracle is the concatenation of the source collection's own partitions, i.e. the
    # rows in the column dtypes dask-expr itself uses (pyarrow strings: `w == "cd"` is <NA> for missing w, not False)
    from vmon.execs import concat_parts, exec_ref

    _STATE["L"] = concat_parts(exec_ref(_STATE["dL"].expr))
    _STATE["R"] = concat_parts(exec_ref(_STATE["dR"].expr))
    _STATE["pqL"] = {fs: concat_parts(exec_ref(dx.read_parquet(path, filesystem=fs).expr)) for fs in ("fsspec", "arrow")}
    assert _STATE["L"]["rid"].tolist() == L["rid"].tolist() and len(_STATE["pqL"]["arrow"]) == len(L)
    _STATE["ctx"] = contexts_for(tier)
    _STATE["ctxnames"] = sorted(_STATE["ctx"])


def _tt(t):
    return tuple(_tt(x) if isinstance(x, list) else x for x in t) if isinstance(t, (list, tuple)) else t


def run_case(case):
    tree = _tt(case["tree"])
    syms = sorted(tree_syms(tree))
    ctxs = _STATE["ctx"]
    names = _STATE["ctxnames"]
    counters = collections_counter()
    sets = {"contexts_fired": [], "contexts_run": []}
    nt = []
    viol = None
    nb = case.get("nb", 1)
    for b in range(nb):
        rng = derive_rng("C03", case["seed"], case.get("i", -1), b)
        if "ctx" in case:
            todo = list(case["ctx"])
        else:
            # source context always; plus rotating contexts so every (context x tree) cell family is covered
            k = 3 if case.get("L", 1) <= 3 else 2
            start = (case["i"] * 7 + b * 13) % len(names)
            todo = ["source"] + [names[(start + j * 17) % len(names)] for j in range(k)]
            if case["i"] % 3 == 0:
                pq = [n for n in names if n.startswith("parquet")]
                todo.append(pq[(case["i"] // 3 + b) % len(pq)])
        for ctxname in todo:
            if "binding" in case:
                binding = {int(k): v for k, v in case["binding"].items()}
            else:
                pool = atom_pool(ctxname, rng, allow_reduction=True)
                picks = rng.sample(pool, len(syms)) if len(pool) >= len(syms) else [rng.choice(pool) for _ in syms]
                binding = dict(zip(syms, picks))
            tree_c = tree
            if ctxname.startswith("parquet") and "binding" not in case and rng.random() < 0.5:
                tree_c = strip_not(tree)  # negations are never absorbed by the reader; keep half of the parquet runs absorbable
            v, info = run_one(tree_c, binding, ctxname)
            for k_, n_ in info["counters"].items():
                counters[k_] = counters.get(k_, 0) + n_
            sets["contexts_run"].append(ctxname)
            if info.get("fired"):
                sets["contexts_fired"].append(ctxname)
            if info.get("nontrivial"):
                nt.append(f"{tree_str(tree, binding)}@{ctxname}")
            if v and not viol:
                v.update({"ctx": ctxname, "pred": tree_str(tree_c, binding), "ops": [ctxname.split(":")[0]] + sorted(set(binding.values()))})
                viol = v
                viol_case = {"tree": tree_c, "binding": {str(k): v_ for k, v_ in binding.items()}, "ctx": [ctxname], "seed": case["seed"]}
    rec = {"status": "violation" if viol else "ok", "counters": counters, "sets": sets, "nt": nt}
    if viol:
        rec["viol"] = viol
        rec["case"] = viol_case
    if case.get("i") in (5, 40, 300):
        rec["sample"] = {"predicate": tree_str(tree, binding), "contexts": todo}
    return rec


def collections_counter():
    return {}


FILTER_RULE_CLASSES = {"Filter", "FilterAlign"}


def run_one(tree, binding, ctxname):
    import dask_expr as dx

    info = {"counters": {}, "fired": False, "nontrivial": False}
    c = info["counters"]
    P = pred_fn(tree, binding)
    f = _STATE["ctx"][ctxname]
    is_pq = ctxname.startswith("parquet")
    try:
        if is_pq:
            exp = f("pd", _STATE["pqL"][ctxname.split(":")[1]], None, P)
        else:
            exp = f("pd", _STATE["L"], _STATE["R"], P)
    except Exception as e:
        c["pandas_refused"] = 1
        return None, info
    try:
        if is_pq:
            q = f("dx", None, None, P, path=_STATE["pq"])
        else:
            q = f("dx", _STATE["dL"], _STATE["dR"], P)
    except Exception as e:
        c["build_refused"] = 1
        return None, info
    M.RULES.reset()
    try:
        opt = q.optimize(fuse=False)
        got = opt.compute(scheduler="sync")
    except Exception as e:
        # does the unoptimized plan compute?  then the optimizer turned a computable query into an error
        try:
            from vmon.execs import concat_parts, exec_ref

            with M.Guard():
                concat_parts(exec_ref(q.expr))
        except Exception:
            c["both_refuse"] = 1
            return None, info
        import traceback

        tb = traceback.extract_tb(e.__traceback__)
        site = next((f"{os.path.basename(fr.filename)}:{fr.name}" for fr in reversed(tb) if "dask_expr" in fr.filename), "?")
        return {"oracle": "opt_runs", "symptom": f"raises:{type(e).__name__}", "detail": str(e)[:200], "site": site}, info
    ev = M.RULES.snapshot()
    fired = [k for k in ev if k[0] == "_simplify_up" and k[3] in FILTER_RULE_CLASSES]
    plan_classes = [type(x).__name__ for x in opt.expr.walk()]
    if any(k[1] in ("Filter", "FilterAlign") and k[4] in ("Filter", "FilterAlign", "Projection") for k in fired):
        pass
    n_or = sum(v for k, v in ev.items() if k[0] == "_simplify_up" and k[1] == "Filter" and k[2] in FILTER_RULE_CLASSES and k[3] != "Filter" and k[3] != "Projection" and k[3] != "Index")
    for k, v in ev.items():
        if k[0] == "_simplify_up" and k[3] in FILTER_RULE_CLASSES and k[1] not in ("Filter",):
            c["rule_filter_passthrough"] = c.get("rule_filter_passthrough", 0) + v
            if k[1] == "Merge":
                c["merge_pushdowns"] = c.get("merge_pushdowns", 0) + v
        if k[0] == "_simplify_up" and k[1] == "Filter" and k[3] in FILTER_RULE_CLASSES:
            c["rule_filter_squash"] = c.get("rule_filter_squash", 0) + v
    # OR factoring: Filter._simplify_up fires with an arbitrary parent when the predicate was rewritten
    if any(k[0] == "_simplify_up" and k[1] == "Filter" and k[3] not in FILTER_RULE_CLASSES | {"Projection", "Index"} for k in ev):
        c["rule_or_factoring"] = c.get("rule_or_factoring", 0) + 1
    if is_pq:
        def _readers(e):
            nodes = list(e.walk())
            for x in list(nodes):
                if type(x).__name__ == "Fused":
                    nodes += list(x.exprs)
            return [x for x in nodes if type(x).__name__.startswith("ReadParquet")] + [x.operand("_expr") for x in nodes if type(x).__name__ in ("FusedIO", "FusedParquetIO")]

        rp = _readers(opt.expr)
        try:
            # compute() optimizes the (already optimized) collection once more; that is the plan that really ran
            with M.Guard():
                rp += _readers(opt.optimize().expr)
                if opt.npartitions > 1:
                    rp += _readers(opt.repartition(npartitions=1).optimize().expr)  # what FrameBase.compute() builds
        except Exception:
            pass
        plan_classes += [type(x).__name__ for x in rp]
        user = [("key", ">=", 1)] if ":userfilter:" in ctxname else None
        flt_now = rp[0].operand("filters") if rp else None
        if rp and flt_now is not None and repr(flt_now) != repr(user):
            c["parquet_absorbed"] = c.get("parquet_absorbed", 0) + 1
            if user:
                c["parquet_absorbed_combined_with_user_filters"] = c.get("parquet_absorbed_combined_with_user_filters", 0) + 1
            info["fired"] = True
        else:
            c["parquet_not_absorbed"] = c.get("parquet_not_absorbed", 0) + 1
    if fired:
        info["fired"] = True
    c["compared"] = 1
    cols = ["rid", "rid_r"] if "rid_r" in getattr(exp, "columns", []) else ["rid"]
    extra = [x for x in ("m",) if x in getattr(exp, "columns", [])]
    try:
        g2, e2 = got[cols + extra], exp[cols + extra]
    except Exception as e:
        return {"oracle": "pandas_rows", "symptom": "column-labels", "got": list(map(str, getattr(got, "columns", []))), "exp": list(map(str, exp.columns))}, info
    d = compare(g2, e2, order=False, index=False, dtypes=False)
    if d is None and list(got.columns) != list(exp.columns):
        d = {"symptom": "column-labels", "got": list(map(str, got.columns)), "exp": list(map(str, exp.columns))}
    if 0 < len(exp) < (len(_STATE["L"]) if not ctxname.startswith("merge") else 10**9) and info["fired"]:
        info["nontrivial"] = True
    if d:
        d["oracle"] = "pandas_rows"
        d["classes"] = sorted(set(plan_classes))
        if is_pq:
            # mechanism fields: which comparison operators did the reader absorb, and are the missing rows exactly
            # rows whose `!=`-compared column is null?
            try:
                tuples = []
                for x_ in rp:  # every plan variant that may have run (fuse on/off, re-optimized, compute path)
                    for conj in (x_.operand("filters") or []):
                        tuples += list(conj) if isinstance(conj, (list, tuple)) and conj and isinstance(conj[0], (list, tuple)) else [conj]
                ne_cols = sorted({t[0] for t in tuples if t[1] == "!="})
                d["reader_filter_ops"] = sorted({t[1] for t in tuples})
                missing = sorted(set(exp["rid"].tolist()) - set(got["rid"].tolist()))
                extra_rows = sorted(set(got["rid"].tolist()) - set(exp["rid"].tolist()))
                src = _STATE["pqL"][ctxname.split(":")[1]].set_index("rid")
                d["missing_all_null_in_ne_col"] = bool(missing) and not extra_rows and bool(ne_cols) and all(
                    any(pd.isna(src.loc[r, c]) for c in ne_cols) for r in missing)
            except Exception as e:
                d["mech_error"] = str(e)[:100]
        return d, info
    return None, info
