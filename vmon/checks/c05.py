"""C05 - results do not depend on task scheduling; tasks never mutate their inputs.

Events: (a) two dependency-respecting executions of one graph give different results; (b) a task returns with
one of its input objects, an embedded literal (pandas object or dict) or the user's source frame changed;
(c) a retained value changed after it was produced; (d) repeated compute() of one collection differ.
Monitors: M-task (fingerprints around every task call in our own scheduler), a dask Callback recording the
start/finish order of threaded runs, delay injection between tasks.
"""
import dask
import pandas as pd

from vmon import monitors as M
from vmon import progcase, programs
from vmon.compare import compare
from vmon.execs import concat_parts, exec_ordered, exec_threads, graph_of, shared_keys
from vmon.util import derive_rng, fp, shash

LEVEL = "exploration"
MANIFEST = {
    "text": "The real task graphs of seeded random programs (shared intermediates, fused groups - graphs taken with fusion on and off -, task and disk shuffles, tree reductions, assign/set_index/rename paths, user functions) are executed by our own scheduler in FIFO, LIFO, random-priority and adversarial orders (for every key with >= 2 consumers: each consumer first / last), retaining every value and fingerprinting every dependency, every embedded literal and the user's source frames before and after every task call; by dask's threaded scheduler with 1-16 workers and seeded delays injected between tasks (completion orders recorded through a Callback); and by three repeated compute() calls. All executions must give the same result and no fingerprint may change. 26 targeted queries embed mutable objects the user still holds (reader keyword dicts, lists, mappers, frames, arrays); these are fingerprinted around every schedule.",
    "note": "Fingerprints hash logical content (values, index, labels, names, dtypes, attrs), not pandas' block layout. Inside disk-shuffled partitions row order is compared as a multiset. Schedules are sampled (the number of distinct orders and completion interleavings observed is reported), not enumerated.",
    "technique": "runtime monitoring: external adversarial scheduler + threaded stress with injected delays, with a mutation monitor (before/after fingerprints of all task inputs) and a schedule-independence oracle",
    "design_ref": "DESIGN.md section 4, C05",
}
RULE = ("programs from the typed generator; per graph (fused and unfused): fifo, lifo, K random orders, consumer-first/last for shared keys, threaded runs, repeated computes; "
        "non-trivial = graph with >= 1 key consumed by >= 2 tasks and >= 3 distinct execution orders observed; distinct by (program hash, fuse)")
ASSUMPTIONS = ["user functions in the workload are pure", "rows inside disk-shuffled partitions are unordered"]
CONFIG = {
    "quick": {"budget_s": 50, "programs": 260, "orders": 6, "thread_cfgs": [(2, 1), (4, 2), (16, 3)], "case_timeout_s": 90},
    "thorough": {"budget_s": 600, "programs": 300, "orders": 20, "thread_cfgs": [(1, 0), (2, 1), (4, 2), (8, 3), (16, 4), (16, 5)], "case_timeout_s": 240},
}
TIER = {"t": "quick"}


def floors(tier):
    return {"cases": 120, "nontrivial": 100, "ordered_executions": 1000, "set:order_hashes": 600, "threaded_executions": 300, "set:thread_completion_orders": 150,
            "task_calls_fingerprinted": 20000, "shared_key_adversarial_orders": 150, "repeated_computes": 300, "graphs_with_fused_groups": 60, "graphs_with_shuffle": 40}


def cases(tier, seed):
    for name in USER_ARG_TARGETS:
        yield {"targeted": name}
    profiles = ["blockwise", "default", "structure", "default", "projection", "filter"]
    for i in range(CONFIG[tier]["programs"]):
        yield {"gen": [seed, i], "profile": profiles[i % len(profiles)]}


def setup_worker(tier, seed):
    TIER["t"] = tier


USER_ARG_TARGETS = ["pq_arrow_types_mapper", "pq_arrow_kwargs", "pq_fsspec_kwargs", "csv_kwargs", "map_partitions_args", "from_map_args", "apply_args", "groupby_apply_args",
                    "isin_list", "replace_dict", "fillna_dict", "rename_dict", "astype_dict", "map_dict", "assign_user_series", "merge_user_frame", "clip_bounds", "from_dict", "loc_list",
                    "where_user_frame", "set_index_divisions_list", "repartition_divisions_list", "drop_list", "agg_spec_dict", "query_local_dict", "from_array",
                    # carried intermediates of cumulative / overlapping operations over one-row and empty partitions, shared by several consumers
                    "cumsum_one_row", "cummax_one_row", "cumprod_series_one_row", "cumsum_shared_consumers", "ffill_one_row", "rolling_one_row", "shift_one_row", "diff_empty_partition"]


def _tbl(n=24):
    import numpy as np

    return pd.DataFrame({"a": np.arange(n) % 5, "b": np.arange(n) * 1.5, "c": pd.array([None if i % 4 == 0 else i for i in range(n)], dtype="Int64").astype("float64"),
                         "s": pd.array(["x", "y", "z", "x"] * (n // 4), dtype="str"), "rid": np.arange(n)})


def _addcols(df, d, lst):
    return df.assign(**{k: v for k, v in d.items()}, n=len(lst))


def user_arg_targets(scratch):
    """name -> builder returning (collection, [mutable objects the user still holds])"""
    import os

    import dask_expr as dx
    import numpy as np

    pdf = _tbl()
    out = {}

    def pq(fs, **extra):
        def build():
            path = os.path.join(scratch or "/tmp", f"c05-pq-{os.getpid()}")
            if not os.path.exists(path):
                dx.from_pandas(pdf.assign(i=pdf.rid), npartitions=4).to_parquet(path)
            kw = {k: (v() if callable(v) and k == "_mk" else v) for k, v in extra.items()}
            user = kw.pop("_mk")
            name, obj = user
            r = dx.read_parquet(path, filesystem=fs, **{name: obj})
            return r, [obj]
        return build

    def mapper(t):
        import pyarrow as pa

        return pd.Int64Dtype() if t == pa.int64() else None

    out["pq_arrow_types_mapper"] = pq("arrow", _mk=lambda: ("arrow_to_pandas", {"types_mapper": mapper}))
    out["pq_arrow_kwargs"] = pq("arrow", _mk=lambda: ("arrow_to_pandas", {"ignore_metadata": False, "types_mapper": mapper, "self_destruct": False}))
    out["pq_fsspec_kwargs"] = pq("fsspec", _mk=lambda: ("dataset", {"partitioning": None}))

    def csv():
        path = os.path.join(scratch or "/tmp", f"c05-csv-{os.getpid()}")
        if not os.path.exists(path):
            os.makedirs(path)
            for i in range(3):
                pdf.iloc[i * 8:(i + 1) * 8].to_csv(os.path.join(path, f"p{i}.csv"), index=False)
        dt = {"a": "int64", "b": "float64"}
        usecols = ["a", "b", "s", "rid"]
        return dx.read_csv(os.path.join(path, "p*.csv"), dtype=dt, usecols=usecols), [dt, usecols]

    out["csv_kwargs"] = csv

    def mp():
        d, lst = {"k1": 1, "k2": 2.5}, [1, 2, 3]
        x = dx.from_pandas(pdf, npartitions=4)
        return x.map_partitions(_addcols, d, lst, meta=_addcols(pdf.iloc[:0], d, lst)), [d, lst]

    out["map_partitions_args"] = mp

    def fm():
        args = {"cols": ["a", "b"]}
        chunks = [pdf.iloc[:10], pdf.iloc[10:]]
        return dx.from_map(lambda c, cols=None: c[cols["cols"]] if isinstance(cols, dict) else c, chunks, cols=args), [args, chunks[0], chunks[1]]

    out["from_map_args"] = fm

    def ap():
        d = {"a": 2}
        x = dx.from_pandas(pdf, npartitions=3)
        return x.apply(lambda r, w: r["a"] * w["a"] + r["rid"], axis=1, args=(d,), meta=(None, "int64")), [d]

    out["apply_args"] = ap

    def ga():
        d = {"w": 3}
        x = dx.from_pandas(pdf, npartitions=3)
        return x.groupby("a")[["b", "rid"]].apply(lambda g, w: g.sum() * w["w"], d, meta={"b": "f8", "rid": "i8"}), [d]

    out["groupby_apply_args"] = ga

    def simple(fn, *objs_fn):
        def build():
            objs = [o() for o in objs_fn]
            x = dx.from_pandas(pdf, npartitions=4)
            return fn(x, *objs), objs
        return build

    out["isin_list"] = simple(lambda x, l: x[x.a.isin(l)], lambda: [1, 2, 9])
    out["replace_dict"] = simple(lambda x, d: x[["a", "rid"]].replace(d), lambda: {1: 100, 2: 200})
    out["fillna_dict"] = simple(lambda x, d: x.fillna(d), lambda: {"c": 0.0})
    out["rename_dict"] = simple(lambda x, d: x.rename(columns=d)[["A", "rid"]], lambda: {"a": "A", "b": "B"})
    out["astype_dict"] = simple(lambda x, d: x.astype(d), lambda: {"a": "float64", "rid": "int32"})
    out["map_dict"] = simple(lambda x, d: x.a.map(d, meta=("a", "f8")), lambda: {0: 1.5, 1: 2.5})
    out["assign_user_series"] = simple(lambda x, s: x.assign(z=dx.from_pandas(s, npartitions=4)), lambda: pd.Series(np.arange(24) * 2.0, name="z"))
    out["merge_user_frame"] = simple(lambda x, f: x.merge(f, on="a"), lambda: pd.DataFrame({"a": [0, 1, 2], "w": [10, 20, 30]}))
    out["clip_bounds"] = simple(lambda x, l: x[["a", "b"]].clip(lower=l[0], upper=l[1]), lambda: [1, 3])
    out["from_dict"] = lambda: (lambda d: (dx.from_dict(d, npartitions=2), [d]))({"p": [1, 2, 3, 4], "q": [1.5, 2.5, 3.5, 4.5]})
    out["loc_list"] = simple(lambda x, l: x.loc[l], lambda: [2, 5, 17])
    out["where_user_frame"] = simple(lambda x, f: x[["a", "b"]].where(x[["a", "b"]] > 1, dx.from_pandas(f, npartitions=4)), lambda: pd.DataFrame({"a": np.zeros(24, dtype="int64"), "b": np.ones(24)}))
    out["set_index_divisions_list"] = simple(lambda x, l: x.set_index("rid", divisions=l), lambda: [0, 8, 16, 23])
    out["repartition_divisions_list"] = simple(lambda x, l: x.repartition(divisions=l), lambda: [0, 5, 23])
    out["drop_list"] = simple(lambda x, l: x.drop(columns=l), lambda: ["s", "c"])
    out["agg_spec_dict"] = simple(lambda x, d: x.groupby("a").agg(d), lambda: {"b": ["sum", "max"], "rid": "min"})
    out["query_local_dict"] = simple(lambda x, d: x.query("a > @thr", local_dict=d), lambda: {"thr": 2})
    def cuts(fn, cutv=(3, 4, 7), cols=("b", "c", "rid")):
        def build():
            from vmon import layouts

            p = pdf[list(cols)].iloc[:10].copy()
            x = layouts.build(p, {"kind": "cuts", "cuts": list(cutv), "via": "from_map", "divisions": "unknown"})
            return fn(x), [p]
        return build

    out["cumsum_one_row"] = cuts(lambda x: x.cumsum())
    out["cummax_one_row"] = cuts(lambda x: x.cummax())
    out["cumprod_series_one_row"] = cuts(lambda x: (x.b + 1).cumprod())
    out["cumsum_shared_consumers"] = cuts(lambda x: (lambda c: c.assign(t=c.b + c.rid, u=c.b * 2))(x.cumsum()))
    out["ffill_one_row"] = cuts(lambda x: x.ffill())
    out["rolling_one_row"] = cuts(lambda x: x.rolling(2, min_periods=1).sum(), cutv=(3, 5, 7))
    out["shift_one_row"] = cuts(lambda x: x.shift(1), cutv=(2, 4, 7))
    out["diff_empty_partition"] = cuts(lambda x: x.diff(1), cutv=(3, 3, 7))
    out["from_array"] = lambda: (lambda arr: (dx.from_array(arr, chunksize=5, columns=["p", "q"]), [arr]))(np.arange(24.0).reshape(12, 2))
    return out


def run_case(case):
    conf = CONFIG[TIER["t"]]
    counters, sets = {}, {"order_hashes": [], "thread_completion_orders": []}
    rec = {"status": "ok", "counters": counters, "sets": sets, "nt": []}

    def bump(k, v=1):
        counters[k] = counters.get(k, 0) + v

    if "targeted" in case:
        # queries that embed mutable objects the USER holds (keyword dicts, lists, mappers, frames) in their tasks
        import copy
        import os

        tg = user_arg_targets(os.environ.get("VMON_SCRATCH"))
        if case["targeted"] not in tg:
            return {"status": "undecided", "counters": {"unknown_target": 1}}
        prog = {"targeted": case["targeted"]}
        rng = derive_rng("C05", case["targeted"])
        method = "tasks"
        try:
            q, user_objs = tg[case["targeted"]]()
        except Exception as ex:
            return {"status": "refused", "counters": {"build_refused": 1}, "sets": {"build_refusals": [f"{case['targeted']}:{type(ex).__name__}"]}}
        flags = {"order": True, "index": True}
        tables = list(user_objs)
        bump("user_argument_targets")
    else:
        prog = case["prog"] if "prog" in case else progcase.gen_prog(("C05",) + tuple(case["gen"]), profile=case.get("profile", "default"), two_prob=0.5)
        rng = derive_rng("C05", shash(prog))
        method = case.get("shuffle") or rng.choice(["tasks", "tasks", "disk"])
        b = progcase.Built(prog).build_sources()
        try:
            b.eval_pd()
            b.eval_dx(method)
        except Exception:
            return {"status": "refused", "counters": {"build_refused": 1}}
        flags = {"order": b.out_pd.order, "index": b.out_pd.index}
        q = b.out_dx
        tables = b.tables
    src_fp = [fp(t) for t in tables]
    viol = None
    with dask.config.set({"dataframe.shuffle.method": method}):
        for fuse in ((True, False) if rng.random() < 0.5 else (True,)):
            try:
                opt = q.expr.optimize(fuse=fuse)
                g, keys, low = graph_of(opt)
                base = exec_ordered(g, keys, policy="fifo", rng=rng)
            except Exception:
                bump("graph_or_baseline_raises")
                continue
            classes = {type(x).__name__ for x in low.walk()}
            unordered = method == "disk" and "DiskShuffle" in classes
            if "Fused" in classes:
                bump("graphs_with_fused_groups")
            if classes & {"TaskShuffle", "DiskShuffle", "SimpleShuffle"}:
                bump("graphs_with_shuffle")
            ref = base["results"]
            bump("ordered_executions")
            bump("task_calls_fingerprinted", len(base["order"]))
            sets["order_hashes"].append(shash([str(k) for k in base["order"]]))
            if base["mutations"]:
                viol = dict(base["mutations"][0], oracle="task_mutation", symptom=base["mutations"][0]["kind"], policy="fifo", fuse=fuse)
                break
            sk = shared_keys(g)
            plans = [("lifo", None)] + [("random", None)] * conf["orders"]
            for k_ in list(sk)[:6]:
                for cons in sk[k_][:3]:
                    plans.append(("prefer_first", {cons}))
                    plans.append(("prefer_last", {cons}))
            if len(plans) > conf["orders"] + 9:
                head, tail = plans[: conf["orders"] + 1], plans[conf["orders"] + 1:]
                rng.shuffle(tail)
                plans = head + tail[:8]
            norders = 1
            for policy, prefer in plans:
                if "disk" == method and unordered and policy != "lifo" and rng.random() < 0.5:
                    continue
                try:
                    r = exec_ordered(g, keys, policy=policy, rng=rng, prefer=prefer)
                except Exception as ex:
                    viol = dict(progcase.exc_info(ex), oracle="order_runs", policy=policy, fuse=fuse)
                    break
                bump("ordered_executions")
                bump("task_calls_fingerprinted", len(r["order"]))
                if prefer:
                    bump("shared_key_adversarial_orders")
                oh = shash([str(k) for k in r["order"]])
                if oh not in sets["order_hashes"]:
                    norders += 1
                sets["order_hashes"].append(oh)
                if r["mutations"]:
                    viol = dict(r["mutations"][0], oracle="task_mutation", symptom=r["mutations"][0]["kind"], policy=policy, fuse=fuse)
                    break
                d = _cmp_parts(r["results"], ref, unordered)
                if d:
                    viol = dict(d, oracle="order_independence", policy=policy, fuse=fuse)
                    break
            if viol:
                break
            if sk and norders >= 3:
                rec["nt"].append(f"{shash(prog)}:{fuse}")
            # threaded scheduler, all keys requested, delays injected between tasks
            for nworkers, pseed in conf["thread_cfgs"]:
                try:
                    tr = exec_threads(g, keys, nworkers, perturb_rng=derive_rng("perturb", shash(prog), pseed) if pseed else None)
                except Exception as ex:
                    viol = dict(progcase.exc_info(ex), oracle="threads_run", workers=nworkers, fuse=fuse)
                    break
                bump("threaded_executions")
                sets["thread_completion_orders"].append(shash([str(k) for t, k in tr["events"] if t == "f"]))
                d = _cmp_parts(tr["results"], ref, unordered)
                if d:
                    viol = dict(d, oracle="thread_independence", workers=nworkers, fuse=fuse)
                    break
            if viol:
                break
        if viol is None:
            # repeated compute() of one collection
            try:
                r1 = q.compute(scheduler="sync")
                for rep in range(2):
                    r2 = q.compute(scheduler="threads", num_workers=4) if rep else q.compute(scheduler="sync")
                    bump("repeated_computes")
                    d = compare(r2, r1, order=flags["order"] and not (method == "disk"), index=flags["index"], dtypes=True)
                    if d:
                        viol = dict(d, oracle="repeated_compute", rep=rep)
                        break
            except Exception:
                bump("compute_raises")
        if viol is None:
            for i, t in enumerate(tables):
                if fp(t) != src_fp[i]:
                    viol = {"oracle": "task_mutation", "symptom": "user-source-frame-mutated", "table": i}
    if viol:
        targeted = "targeted" in prog
        viol["ops"] = [prog["targeted"]] if targeted else programs.program_ops(prog)
        viol["shuffle"] = method
        viol["src"] = [f"targeted:{prog['targeted']}"] if targeted else programs.program_source(prog)
        rec["status"] = "violation"
        rec["viol"] = viol
        rec["case"] = {"targeted": prog["targeted"]} if targeted else {"prog": prog, "shuffle": method}
    if case.get("gen") and case["gen"][1] in (0, 4):
        rec["sample"] = {"program": programs.program_source(prog), "shuffle": method, "distinct_orders": len(set(sets["order_hashes"])),
                         "distinct_thread_completion_orders": len(set(sets["thread_completion_orders"]))}
    return rec


def _cmp_parts(got, ref, unordered):
    if len(got) != len(ref):
        return {"symptom": "partition-count", "got": len(got), "exp": len(ref)}
    for i, (a, c) in enumerate(zip(got, ref)):
        d = compare(a, c, order=not unordered, index=not unordered, exact=True, dtypes=True)
        if d:
            return dict(d, part=i)
    return None
