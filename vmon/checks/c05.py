"""C05 - results do not depend on task scheduling; tasks never mutate their inputs.

Events: (a) two dependency-respecting executions of one graph give different results; (b) a task returns with
one of its input objects, an embedded literal (pandas object or dict) or the user's source frame changed;
(c) a retained value changed after it was produced; (d) repeated compute() of one collection differ.
Monitors: M-task (fingerprints around every task call in our own scheduler), a dask Callback recording the
start/finish order of threaded runs, delay injection between tasks.
"""
import dask
import pandas as pd

from vmon import monitors as M
from vmon import progcase, programs
from vmon.compare import compare
from vmon.execs import concat_parts, exec_ordered, exec_threads, graph_of, shared_keys
from vmon.util import derive_rng, fp, shash

LEVEL = "exploration"
MANIFEST = {
    "text": "The real task graphs of seeded random programs (shared intermediates, fused groups - graphs taken with fusion on and off -, task and disk shuffles, tree reductions, assign/set_index/rename paths, user functions) are executed by our own scheduler in FIFO, LIFO, random-priority and adversarial orders (for every key with >= 2 consumers: each consumer first / last), retaining every value and fingerprinting every dependency, every embedded literal and the user's source frames before and after every task call; by dask's threaded scheduler with 1-16 workers and seeded delays injected between tasks (completion orders recorded through a Callback); and by three repeated compute() calls. All executions must give the same result and no fingerprint may change.",
    "note": "Fingerprints hash logical content (values, index, labels, names, dtypes, attrs), not pandas' block layout. Inside disk-shuffled partitions row order is compared as a multiset. Schedules are sampled (the number of distinct orders and completion interleavings observed is reported), not enumerated.",
    "technique": "runtime monitoring: external adversarial scheduler + threaded stress with injected delays, with a mutation monitor (before/after fingerprints of all task inputs) and a schedule-independence oracle",
    "design_ref": "DESIGN.md section 4, C05",
}
RULE = ("programs from the typed generator; per graph (fused and unfused): fifo, lifo, K random orders, consumer-first/last for shared keys, threaded runs, repeated computes; "
        "non-trivial = graph with >= 1 key consumed by >= 2 tasks and >= 3 distinct execution orders observed; distinct by (program hash, fuse)")
ASSUMPTIONS = ["user functions in the workload are pure", "rows inside disk-shuffled partitions are unordered"]
CONFIG = {
    "quick": {"budget_s": 50, "programs": 260, "orders": 6, "thread_cfgs": [(2, 1), (4, 2), (16, 3)], "case_timeout_s": 90},
    "thorough": {"budget_s": 600, "programs": 1200, "orders": 20, "thread_cfgs": [(1, 0), (2, 1), (4, 2), (8, 3), (16, 4), (16, 5)], "case_timeout_s": 240},
}
TIER = {"t": "quick"}


def floors(tier):
    return {"cases": 120, "nontrivial": 100, "ordered_executions": 1000, "set:order_hashes": 600, "threaded_executions": 300, "set:thread_completion_orders": 150,
            "task_calls_fingerprinted": 20000, "shared_key_adversarial_orders": 150, "repeated_computes": 300, "graphs_with_fused_groups": 60, "graphs_with_shuffle": 40}


def cases(tier, seed):
    profiles = ["blockwise", "default", "structure", "default", "projection", "filter"]
    for i in range(CONFIG[tier]["programs"]):
        yield {"gen": [seed, i], "profile": profiles[i % len(profiles)]}


def setup_worker(tier, seed):
    TIER["t"] = tier


def run_case(case):
    conf = CONFIG[TIER["t"]]
    prog = case["prog"] if "prog" in case else progcase.gen_prog(("C05",) + tuple(case["gen"]), profile=case.get("profile", "default"), two_prob=0.5)
    rng = derive_rng("C05", shash(prog))
    method = case.get("shuffle") or rng.choice(["tasks", "tasks", "disk"])
    counters, sets = {}, {"order_hashes": [], "thread_completion_orders": []}
    rec = {"status": "ok", "counters": counters, "sets": sets, "nt": []}

    def bump(k, v=1):
        counters[k] = counters.get(k, 0) + v

    b = progcase.Built(prog).build_sources()
    try:
        b.eval_pd()
        b.eval_dx(method)
    except Exception:
        return {"status": "refused", "counters": {"build_refused": 1}}
    flags = {"order": b.out_pd.order, "index": b.out_pd.index}
    q = b.out_dx
    src_fp = [fp(t) for t in b.tables]
    viol = None
    with dask.config.set({"dataframe.shuffle.method": method}):
        for fuse in ((True, False) if rng.random() < 0.5 else (True,)):
            try:
                opt = q.expr.optimize(fuse=fuse)
                g, keys, low = graph_of(opt)
                base = exec_ordered(g, keys, policy="fifo", rng=rng)
            except Exception:
                bump("graph_or_baseline_raises")
                continue
            classes = {type(x).__name__ for x in low.walk()}
            unordered = method == "disk" and "DiskShuffle" in classes
            if "Fused" in classes:
                bump("graphs_with_fused_groups")
            if classes & {"TaskShuffle", "DiskShuffle", "SimpleShuffle"}:
                bump("graphs_with_shuffle")
            ref = base["results"]
            bump("ordered_executions")
            bump("task_calls_fingerprinted", len(base["order"]))
            sets["order_hashes"].append(shash([str(k) for k in base["order"]]))
            if base["mutations"]:
                viol = dict(base["mutations"][0], oracle="task_mutation", symptom=base["mutations"][0]["kind"], policy="fifo", fuse=fuse)
                break
            sk = shared_keys(g)
            plans = [("lifo", None)] + [("random", None)] * conf["orders"]
            for k_ in list(sk)[:6]:
                for cons in sk[k_][:3]:
                    plans.append(("prefer_first", {cons}))
                    plans.append(("prefer_last", {cons}))
            if len(plans) > conf["orders"] + 9:
                head, tail = plans[: conf["orders"] + 1], plans[conf["orders"] + 1:]
                rng.shuffle(tail)
                plans = head + tail[:8]
            norders = 1
            for policy, prefer in plans:
                if "disk" == method and unordered and policy != "lifo" and rng.random() < 0.5:
                    continue
                try:
                    r = exec_ordered(g, keys, policy=policy, rng=rng, prefer=prefer)
                except Exception as ex:
                    viol = dict(progcase.exc_info(ex), oracle="order_runs", policy=policy, fuse=fuse)
                    break
                bump("ordered_executions")
                bump("task_calls_fingerprinted", len(r["order"]))
                if prefer:
                    bump("shared_key_adversarial_orders")
                oh = shash([str(k) for k in r["order"]])
                if oh not in sets["order_hashes"]:
                    norders += 1
                sets["order_hashes"].append(oh)
                if r["mutations"]:
                    viol = dict(r["mutations"][0], oracle="task_mutation", symptom=r["mutations"][0]["kind"], policy=policy, fuse=fuse)
                    break
                d = _cmp_parts(r["results"], ref, unordered)
                if d:
                    viol = dict(d, oracle="order_independence", policy=policy, fuse=fuse)
                    break
            if viol:
                break
            if sk and norders >= 3:
                rec["nt"].append(f"{shash(prog)}:{fuse}")
            # threaded scheduler, all keys requested, delays injected between tasks
            for nworkers, pseed in conf["thread_cfgs"]:
                try:
                    tr = exec_threads(g, keys, nworkers, perturb_rng=derive_rng("perturb", shash(prog), pseed) if pseed else None)
                except Exception as ex:
                    viol = dict(progcase.exc_info(ex), oracle="threads_run", workers=nworkers, fuse=fuse)
                    break
                bump("threaded_executions")
                sets["thread_completion_orders"].append(shash([str(k) for t, k in tr["events"] if t == "f"]))
                d = _cmp_parts(tr["results"], ref, unordered)
                if d:
                    viol = dict(d, oracle="thread_independence", workers=nworkers, fuse=fuse)
                    break
            if viol:
                break
        if viol is None:
            # repeated compute() of one collection
            try:
                r1 = q.compute(scheduler="sync")
                for rep in range(2):
                    r2 = q.compute(scheduler="threads", num_workers=4) if rep else q.compute(scheduler="sync")
                    bump("repeated_computes")
                    d = compare(r2, r1, order=flags["order"] and not (method == "disk"), index=flags["index"], dtypes=True)
                    if d:
                        viol = dict(d, oracle="repeated_compute", rep=rep)
                        break
            except Exception:
                bump("compute_raises")
        if viol is None:
            for i, t in enumerate(b.tables):
                if fp(t) != src_fp[i]:
                    viol = {"oracle": "task_mutation", "symptom": "user-source-frame-mutated", "table": i}
    if viol:
        viol["ops"] = programs.program_ops(prog)
        viol["shuffle"] = method
        viol["src"] = programs.program_source(prog)
        rec["status"] = "violation"
        rec["viol"] = viol
        rec["case"] = {"prog": prog, "shuffle": method}
    if case.get("gen") and case["gen"][1] in (0, 4):
        rec["sample"] = {"program": programs.program_source(prog), "shuffle": method, "distinct_orders": len(set(sets["order_hashes"])),
                         "distinct_thread_completion_orders": len(set(sets["thread_completion_orders"]))}
    return rec


def _cmp_parts(got, ref, unordered):
    if len(got) != len(ref):
        return {"symptom": "partition-count", "got": len(got), "exp": len(ref)}
    for i, (a, c) in enumerate(zip(got, ref)):
        d = compare(a, c, order=not unordered, index=not unordered, exact=True, dtypes=True)
        if d:
            return dict(d, part=i)
    return None
