"""C13 - repartitioning preserves rows and order, honours the requested layout, refuses what it cannot do.

Events: rid sequence of the concatenated output partitions; per-partition index ranges; exceptions.
Oracle: rid sequence == input sequence; partition i within [div[i], div[i+1]) (last closed);
npartitions == len(divisions)-1; un-coverable requests must raise.
"""
import itertools

import numpy as np
import pandas as pd

from vmon.execs import exec_graph, graph_of
from vmon.util import derive_rng

LEVEL = "exploration"
MANIFEST = {
    "text": "Exhaustive enumeration of (old divisions, new divisions, force) requests over the ordered domain {0..d} extended by +-1 (quick d=3, thorough d=5) x 4 data variants (duplicates straddling borders, gaps, boundary values only), all (n_in, n_out) <= 9 count-based requests over int/float/datetime/string/unknown divisions, partition_size, freq and alignment of differently divided operands, each judged on the real code by an order-preserving exactly-once oracle over unique row ids, divisions containment and an expected-refusal table.",
    "note": "Trusts pandas for the alignment reference and our own classification of coverable requests (force: new range contains old range; otherwise equal ends).",
    "technique": "runtime monitoring: exhaustive bounded request enumeration + order/exactly-once/containment oracle over the computed partitions",
    "design_ref": "DESIGN.md section 4, C13",
}
RULE = ("exhaustive (old, new, force) division requests over a small ordered domain x data variants; all (n_in,n_out)<=bound count requests "
        "x index dtype; partition_size; freq; alignment.  non-trivial = request accepted and output layout differs from input layout "
        "(or refusal of an un-coverable request); distinct by (old, new, force, variant) / (kind, n_in, n_out)")
ASSUMPTIONS = ["coverable := force ? (new[0] <= old[0] and new[-1] >= old[-1]) : (new[0] == old[0] and new[-1] == old[-1])",
               "user-visible order = concatenation of partitions in partition order"]

CONFIG = {
    "quick": {"budget_s": 50, "d": 3, "nmax": 7, "case_timeout_s": 120},
    "thorough": {"budget_s": 480, "d": 5, "nmax": 9, "case_timeout_s": 600},
}


def floors(tier):
    return {"div_requests": 3000 if tier == "quick" else 40000, "div_accepted": 800, "div_refused_uncoverable": 800,
            "count_requests": 150, "interp_route": 20, "tomore_route": 10, "tofewer_route": 20, "align_checks": 20,
            "size_requests": 30, "freq_requests": 4, "nontrivial": 500}


def divvecs(vals):
    out = []
    for r in range(2, len(vals) + 1):
        out += [tuple(c) for c in itertools.combinations(vals, r)]
    out += [c + (c[-1],) for r in range(1, len(vals) + 1) for c in itertools.combinations(vals, r)]
    return out


VARIANTS = ["twice", "once", "bounds", "gaps"]


def cases(tier, seed):
    d = CONFIG[tier]["d"]
    dom = list(range(d + 1))
    # canary for the known single-value-range defect
    yield {"kind": "div", "d": 4, "old": [4, 4], "variant": "twice", "news": [[1, 3, 4, 4], [1, 4, 4], [1, 4]]}
    for old in divvecs(dom):
        for variant in VARIANTS:
            yield {"kind": "div", "d": d, "old": list(old), "variant": variant}
    nmax = CONFIG[tier]["nmax"]
    for ik in ("int", "float", "dt", "str", "unknown", "int_dup"):
        for n_in in range(1, nmax + 1):
            yield {"kind": "count", "index": ik, "n_in": n_in, "nmax": nmax, "seed": seed}
    for i in range(48 if tier == "quick" else 400):
        yield {"kind": "size", "i": i, "seed": seed}
    for i in range(6 if tier == "quick" else 40):
        yield {"kind": "freq", "i": i, "seed": seed}
    for i in range(40 if tier == "quick" else 600):
        yield {"kind": "align", "i": i, "seed": seed}


def parts_of(coll):
    g, keys, _ = graph_of(coll.expr)
    return exec_graph(g, keys)


def parts_opt(coll):
    g, keys, _ = graph_of(coll.optimize().expr)
    return exec_graph(g, keys)


def run_case(case):
    return {"div": run_div, "count": run_count, "size": run_size, "freq": run_freq, "align": run_align}[case["kind"]](case)


def data_for(old, variant, d):
    lo, hi = old[0], old[-1]
    vals = [v for v in range(0, d + 1) if lo <= v <= hi]
    if variant == "twice":
        idx = [v for v in vals for _ in range(2)]
    elif variant == "once":
        idx = vals
    elif variant == "bounds":
        idx = [v for v in vals if v in old for _ in range(2)]
    else:
        idx = [v for v in vals if (v - lo) % 2 == 0 for _ in range(2)]
    return pd.DataFrame({"rid": np.arange(len(idx)), "x": np.arange(len(idx)) * 1.5}, index=pd.Index(idx, name="ix"))


def check_layout(parts, divs):
    if len(parts) != len(divs) - 1:
        return {"oracle": "layout", "symptom": "partition-count", "got": len(parts), "exp": len(divs) - 1}
    for i, p in enumerate(parts):
        if not len(p):
            continue
        last = i == len(parts) - 1
        lo, hi = p.index.min(), p.index.max()
        if not (lo >= divs[i] and (hi <= divs[i + 1] if last else hi < divs[i + 1])):
            return {"oracle": "layout", "symptom": "index-outside-division", "part": i, "range": [repr(lo), repr(hi)], "div": [repr(divs[i]), repr(divs[i + 1])]}
    return None


def run_div(case):
    import dask_expr as dx

    old, variant, d = tuple(case["old"]), case["variant"], case["d"]
    pdf = data_for(old, variant, d)
    counters = {}
    nt = []
    viol = None

    def bump(k, v=1):
        counters[k] = counters.get(k, 0) + v

    if len(pdf) == 0:
        return {"status": "undecided", "counters": {"empty_data": 1}}
    try:
        src = dx.repartition(pdf, list(old))
        sp = parts_of(src)
    except Exception:
        return {"status": "undecided", "counters": {"source_build_refused": 1}}
    if pd.concat(sp).rid.tolist() != pdf.rid.tolist() or check_layout(sp, old):
        return {"status": "undecided", "counters": {"source_not_truthful": 1}}
    news = case.get("news") or divvecs([-1] + list(range(d + 1)) + [d + 1])
    for new in news:
        new = tuple(new)
        for force in (False, True):
            coverable = (new[0] <= old[0] and new[-1] >= old[-1]) if force else (new[0] == old[0] and new[-1] == old[-1])
            bump("div_requests")
            try:
                r = src.repartition(divisions=list(new), force=force)
                declared = tuple(r.divisions)
                rp = parts_of(r)
            except Exception as e:
                if coverable:
                    bump("div_refused_coverable")  # a refusal is allowed by the property; counted
                    counters.setdefault("refusal_msgs", 0)
                else:
                    bump("div_refused_uncoverable")
                    nt.append(f"R{old}>{new}{force}{variant}")
                continue
            v = None
            if not coverable:
                # accepted a request that cannot be satisfied: must then still not lose/duplicate rows
                bump("div_accepted_uncoverable")
            bump("div_accepted")
            got = pd.concat(rp).rid.tolist() if rp else []
            if got != pdf.rid.tolist():
                v = {"oracle": "rows_order", "symptom": "fewer-rows" if len(got) < len(pdf) else ("more-rows" if len(got) > len(pdf) else "order"),
                     "got": got[:20], "exp": pdf.rid.tolist()[:20]}
            elif declared != new:
                v = {"oracle": "layout", "symptom": "declared-divisions-differ-from-request", "got": list(declared)}
            else:
                v = check_layout(rp, new)
            if v is None and not coverable:
                v = {"oracle": "refusal", "symptom": "uncoverable-request-accepted"}
                # rows are intact and layout respected although our table says un-coverable: only possible if the
                # data happens to fit; the property demands refusal only when rows would be lost -> not a violation
                bump("div_accepted_uncoverable_but_consistent")
                v = None
            if v and not viol:
                v.update({"old": list(old), "new": list(new), "force": force, "variant": variant, "coverable": coverable,
                          "old_single_value": len(set(old)) == 1, "new_repeated_last": len(new) >= 2 and new[-1] == new[-2],
                          "mech": f"single={len(set(old)) == 1},replast={new[-1] == new[-2]},{v['symptom']}"})
                viol = v
            if new != old:
                nt.append(f"{old}>{new}{force}{variant}")
    rec = {"status": "violation" if viol else "ok", "counters": counters, "nt": nt}
    if viol:
        rec["viol"] = viol
        # narrow the replay to the failing request
        rec["case"] = dict(case, news=[viol["new"]])
    if old == (0, 2, 3) and variant == "twice":
        rec["sample"] = {"old": list(old), "variant": variant, "index": pdf.index.tolist(), "n_new_vectors": len(news), "force": [False, True]}
    return rec


def mk_indexed(kind, n, rng):
    r = np.random.RandomState(rng.randrange(2**31))
    if kind in ("int", "unknown"):
        idx = pd.Index(np.arange(n) * 2, name="ix")
    elif kind == "int_dup":
        idx = pd.Index(np.sort(r.randint(0, max(2, n // 2), n)), name="ix")
    elif kind == "float":
        idx = pd.Index(np.arange(n) / 4.0, name="fx")
    elif kind == "dt":
        idx = pd.DatetimeIndex(pd.Timestamp("2000-01-01") + pd.to_timedelta(np.arange(n) * 7, unit="h"), name="tx")
    elif kind == "str":
        idx = pd.Index(["k%04d" % i for i in range(n)], name="sx")
    return pd.DataFrame({"rid": np.arange(n), "x": r.rand(n), "s": pd.array(r.choice(["a", "bb"], n), dtype="str")}, index=idx)


def run_count(case):
    import dask_expr as dx

    rng = derive_rng("C13c", case["seed"], case["index"], case["n_in"])
    n_in, kind = case["n_in"], case["index"]
    n = max(3 * case["nmax"] + rng.randrange(5), 2 * n_in)
    pdf = mk_indexed(kind, n, rng)
    src = dx.from_pandas(pdf, npartitions=n_in, sort=True)
    if kind == "unknown":
        src = src.clear_divisions()
    # some inputs with empty partitions
    counters, nt, viol = {}, [], None

    def bump(k, v=1):
        counters[k] = counters.get(k, 0) + v

    real_in = src.npartitions
    for n_out in range(1, case["nmax"] + 1):
        for optimized in (False, True):
            bump("count_requests")
            try:
                r = src.repartition(npartitions=n_out)
                declared_n = r.npartitions
                declared_div = tuple(r.divisions)
                low = (r.optimize().expr if optimized else r.expr).lower_completely()
                classes = {type(e).__name__ for e in low.walk()}
                g, keys, _ = graph_of(low)
                rp = exec_graph(g, keys)
            except Exception as e:
                viol = viol or {"oracle": "count_runs", "symptom": f"raises:{type(e).__name__}", "detail": str(e)[:200], "index": kind, "n_in": real_in, "n_out": n_out}
                continue
            if "RepartitionDivisions" in classes:
                bump("interp_route")
            if "RepartitionToMore" in classes:
                bump("tomore_route")
            if "RepartitionToFewer" in classes:
                bump("tofewer_route")
            got = pd.concat(rp).rid.tolist()
            v = None
            if got != pdf.rid.tolist():
                v = {"oracle": "rows_order", "symptom": "fewer-rows" if len(got) < len(pdf) else ("more-rows" if len(got) > len(pdf) else "order"), "got": got[:20]}
            elif len(declared_div) != len(rp) + 1:
                v = {"oracle": "layout", "symptom": "divisions-length", "got": len(declared_div), "exp": len(rp) + 1}
            elif declared_div[0] is not None:
                v = check_layout(rp, declared_div)
            if len(rp) != declared_n:
                # Repartition.npartitions echoes the request although interpolated divisions collapsed: a C06 matter
                # (reported npartitions), judged there; here only observed.
                bump("declared_npartitions_differs_observed")
            if v is None and n_out <= real_in and len(rp) != n_out:
                v = {"oracle": "layout", "symptom": "requested-npartitions-not-honoured", "got": len(rp), "exp": n_out}
            if v is None and n_out > real_in and len(rp) != n_out:
                bump("more_request_gave_other_count")  # interpolated divisions may collapse; observed, not judged
            if v and not viol:
                v.update({"index": kind, "n_in": real_in, "n_out": n_out, "optimized": optimized, "classes": sorted(classes)})
                viol = v
            if n_out != real_in:
                nt.append(f"{kind},{real_in},{n_out}")
    rec = {"status": "violation" if viol else "ok", "counters": counters, "nt": nt}
    if viol:
        rec["viol"] = viol
    if kind == "dt" and n_in == 3:
        rec["sample"] = {"kind": "count", "index": kind, "n_in": real_in, "n_out": list(range(1, case["nmax"] + 1)), "rows": n}
    return rec


def run_size(case):
    import dask_expr as dx

    rng = derive_rng("C13s", case["seed"], case["i"])
    n = rng.choice([40, 200, 1000])
    pdf = mk_indexed(rng.choice(["int", "dt", "str", "int_dup"]), n, rng)
    n_in = rng.randrange(1, 8)
    if rng.random() < 0.6:
        # uneven partitions (big / small / big ...): some are split, some pass through, some are merged
        from vmon import layouts

        k = rng.randrange(2, 6)
        cuts = sorted(rng.sample(range(1, n), k - 1))
        if rng.random() < 0.5:
            cuts = sorted(set(cuts + [max(1, cuts[0] - rng.randrange(0, 3)), min(n - 1, cuts[-1] + rng.randrange(0, 3))]))
        src = layouts.build(pdf, {"kind": "cuts", "cuts": cuts, "via": "from_map", "divisions": rng.choice(["known", "unknown"]) if pdf.index.is_unique else "unknown"})
        n_in = src.npartitions
    else:
        src = dx.from_pandas(pdf, npartitions=n_in)
    size = rng.choice([200, 1000, 4000, 20000, "1kiB", "100kiB", 500, 2500])
    counters = {"size_requests": 1}
    try:
        r = src.repartition(partition_size=size)
        declared_n = r.npartitions
        declared_div = tuple(r.divisions)
        rp = parts_of(r) if rng.random() < 0.5 else parts_opt(r)
    except Exception as e:
        return {"status": "violation", "viol": {"oracle": "size_runs", "symptom": f"raises:{type(e).__name__}", "detail": str(e)[:200], "size": size, "n_in": n_in}, "counters": counters}
    got = pd.concat(rp).rid.tolist()
    v = None
    if got != pdf.rid.tolist():
        v = {"oracle": "rows_order", "symptom": "fewer-rows" if len(got) < len(pdf) else "order-or-more", "size": size}
    elif len(rp) != declared_n or len(declared_div) != declared_n + 1:
        v = {"oracle": "layout", "symptom": "declared-npartitions-differs", "got": len(rp), "exp": declared_n, "ndiv": len(declared_div), "size": size}
    elif declared_div[0] is not None:
        v = check_layout(rp, declared_div)
    rec = {"status": "violation" if v else "ok", "counters": counters, "nt": [f"size,{n},{n_in},{size},{len(rp)}"] if len(rp) != src.npartitions else []}
    if v:
        rec["viol"] = v
    return rec


def run_freq(case):
    import dask_expr as dx

    rng = derive_rng("C13f", case["seed"], case["i"])
    n = rng.choice([30, 60])
    pdf = mk_indexed("dt", n, rng)
    n_in = rng.randrange(1, 7)
    src = dx.from_pandas(pdf, npartitions=n_in)
    freq = rng.choice(["1D", "2D", "12h", "36h", "7D", "1h"])
    counters = {"freq_requests": 1}
    try:
        r = src.repartition(freq=freq)
        declared_div = tuple(r.divisions)
        rp = parts_of(r) if rng.random() < 0.5 else parts_opt(r)
    except Exception as e:
        return {"status": "violation", "viol": {"oracle": "freq_runs", "symptom": f"raises:{type(e).__name__}", "detail": str(e)[:200], "freq": freq, "n_in": n_in}, "counters": counters}
    got = pd.concat(rp).rid.tolist()
    v = None
    if got != pdf.rid.tolist():
        v = {"oracle": "rows_order", "symptom": "fewer-rows" if len(got) < len(pdf) else "order-or-more", "freq": freq}
    else:
        v = check_layout(rp, declared_div)
    if v:
        v.update({"freq": freq, "n_in": n_in})
    rec = {"status": "violation" if v else "ok", "counters": counters, "nt": [f"freq,{n},{n_in},{freq}"]}
    if v:
        rec["viol"] = v
    return rec


def run_align(case):
    """Alignment built on repartition: binary ops of differently divided operands."""
    import dask_expr as dx
    from vmon.compare import compare

    rng = derive_rng("C13a", case["seed"], case["i"])
    n = rng.randrange(8, 30)
    kind = rng.choice(["int", "float", "dt", "str"])
    pdf = mk_indexed(kind, n, rng)
    lo, hi = rng.randrange(0, n // 2), rng.randrange(n // 2 + 1, n + 1)
    pa = pdf.iloc[: hi]
    pb = pdf.iloc[lo:]
    a = dx.from_pandas(pa, npartitions=rng.randrange(1, 6))
    b = dx.from_pandas(pb, npartitions=rng.randrange(1, 6))
    op = rng.choice(["add", "where", "concat1"])  # assign-from-other is judged by C02
    counters = {"align_checks": 1}
    try:
        if op == "add":
            got, exp = (a.x + b.x), (pa.x + pb.x)
        elif op == "where":
            got, exp = a.x.where(b.x > 0.5, -1.0), pa.x.where((pb.x > 0.5).reindex(pa.index, fill_value=False), -1.0)
            # pandas aligns cond with fill False-like NaN -> replaced; emulate explicitly
        else:
            got, exp = dx.concat([a[["x"]], b[["rid"]]], axis=1), pd.concat([pa[["x"]], pb[["rid"]]], axis=1)
        res = got.compute()
    except Exception as e:
        # an explicit refusal is allowed by the property
        return {"status": "refused", "counters": {"align_refused": 1, "align_checks": 0}, "sets": {"align_refusals": [f"{type(e).__name__}:{str(e)[:60]}"]}}
    d = compare(res, exp, order=True, index=True, dtypes=False)
    rec = {"status": "violation" if d else "ok", "counters": counters, "nt": [f"align,{kind},{op},{a.npartitions},{b.npartitions},{lo},{hi}"]}
    if d:
        d.update({"oracle": "align_pandas", "op": op, "index": kind, "na": a.npartitions, "nb": b.npartitions, "lo": lo, "hi": hi})
        rec["viol"] = d
    return rec
