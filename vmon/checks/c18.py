"""C18 - parquet reads with pushed-down work equal reading everything into memory.

Events: to_parquet -> read_parquet round trip differing from the written frame; read(...)[cols][pred],
.partitions[P], len() after optimize() differing from the same done in pandas on the fully read frame;
an overwrite of a dataset the query still reads that is not refused.
"""
import itertools
import os
import shutil

import dask
import numpy as np
import pandas as pd

from vmon import monitors as M
from vmon import progcase
from vmon.compare import compare
from vmon.execs import concat_parts, exec_ref
from vmon.util import derive_rng

LEVEL = "exploration"
MANIFEST = {
    "text": "Small datasets (1-9 files; named / unnamed / unsorted index; int, float, string, datetime, bool, categorical columns with nulls; overlapping file statistics; an empty file) are written with to_parquet and read back with both reader implementations (fsspec, arrow filesystem) x calculate_divisions on/off on the real code. Oracles: round trip equals the written frame (data, index, name; divisions truthful when requested); every combination of column subset x comparison/and/or predicate tree (<=3 atoms, exhaustive over 9 atoms in thorough) x user-supplied filters= x partition subset x len() computed after optimize() equals pandas applied to the fully read frame; overwriting a dataset the same query still reads is refused. The rule monitor records whether filters / columns / lengths were absorbed by the reader and whether fused multi-file reads were created. Datasets whose file-name order is a non-involutive permutation of their index order are included.",
    "note": "Row-group pruning may change the partition count, so results are compared as whole frames unless a partition subset is requested. The pandas side is the concatenation of the reader's own partitions of the unfiltered dataset.",
    "technique": "runtime monitoring: differential oracle (pushed-down vs in-memory pandas) over an enumerated dataset x reader x projection x predicate grid, with M-rule recording absorption",
    "design_ref": "DESIGN.md section 4, C18",
}
RULE = ("cells = dataset variant x reader x calculate_divisions x (projection, predicate tree, user filter, partition subset, len); quick samples predicates per cell, "
        "thorough enumerates all trees; non-trivial = the optimizer absorbed columns, filters or lengths into the reader or created a fused read; distinct by cell")
ASSUMPTIONS = ["pandas predicate semantics on the fully read frame"]
CONFIG = {
    "quick": {"budget_s": 55, "preds_per_cell": 40, "case_timeout_s": 120},
    "thorough": {"budget_s": 480, "preds_per_cell": 1000, "case_timeout_s": 600},
}
DATASETS = ["one_file_unnamed", "three_named", "five_unsorted", "nine_files", "nulls", "with_empty_file", "string_index", "rotated3", "rotated4", "rotated5"]
# datasets whose file-name order is a (non-involutive) permutation of their index order: file i holds index block ROTATIONS[ds][i]
ROTATIONS = {"rotated3": [2, 0, 1], "rotated4": [3, 0, 1, 2], "rotated5": [1, 3, 4, 0, 2]}
READERS = ["fsspec", "arrow"]


def floors(tier):
    return {"cases": 25, "roundtrips_compared": 20, "pushdown_cells_compared": 400, "nontrivial": 100, "filters_absorbed": 20, "columns_absorbed": 60,
            "len_from_metadata": 20, "fused_reads": 5, "partition_subsets_compared": 50, "overwrite_refusals_checked": 10}


def make_pdf(variant):
    n = 36
    r = np.random.RandomState(abs(hash(variant)) % 1000 if False else len(variant))
    b = r.randint(0, 8, n) / 2.0
    s = np.array(r.choice(["x", "y", "zz"], n), dtype=object)
    t = pd.Timestamp("2001-01-01") + pd.to_timedelta(r.randint(0, 30, n), unit="D")
    df = pd.DataFrame({"a": r.randint(0, 7, n), "b": b, "s": pd.array(s, dtype="str"), "t": t, "f": r.rand(n) > 0.5, "rid": np.arange(n)})
    if variant in ("nulls", "with_empty_file", "nine_files", "five_unsorted"):
        df.loc[r.rand(n) < 0.25, "b"] = np.nan
        ss = df["s"].astype(object)
        ss[r.rand(n) < 0.2] = None
        df["s"] = pd.array(ss, dtype="str")
    if variant == "one_file_unnamed":
        pass
    elif variant == "three_named" or variant.startswith("rotated"):
        df.index = pd.Index(np.arange(n) * 2, name="ix")
    elif variant == "five_unsorted":
        df.index = pd.Index(r.permutation(n), name="ux")
    elif variant == "nine_files":
        df.index = pd.Index(np.sort(r.randint(0, 20, n)), name="dx")
    elif variant == "nulls":
        df.index = pd.Index(np.arange(n) / 2.0, name="fx")
    elif variant == "string_index":
        df.index = pd.Index(["k%03d" % i for i in range(n)], name="sx")
    return df


NFILES = {"rotated3": 3, "rotated4": 4, "rotated5": 5, "one_file_unnamed": 1, "three_named": 3, "five_unsorted": 5, "nine_files": 9, "nulls": 4, "with_empty_file": 4, "string_index": 3}

ATOMS = {
    "a>2": lambda d: d.a > 2, "a<=4": lambda d: d.a <= 4, "a==3": lambda d: d.a == 3, "b>1.5": lambda d: d.b > 1.5, "b!=2.0": lambda d: d.b != 2.0,
    "s==x": lambda d: d.s == "x", "rid<20": lambda d: d.rid < 20, "t>d10": lambda d: d.t > pd.Timestamp("2001-01-11"), "b<=3": lambda d: d.b <= 3,
    # atoms the reader cannot absorb: the residual filter must stay in the plan
    "a<rid": lambda d: d.a < d.rid, "s.isin": lambda d: d.s.isin(["x", "zz"]), "b.isna": lambda d: d.b.isna(), "~a>2": lambda d: ~(d.a > 2), "a+1>4": lambda d: (d.a + 1) > 4,
}
SHAPES = ["A", "A&B", "A|B", "(A|B)&C", "(A&B)|C", "A&B&C", "A|B|C", "(A&B)|(A&C)"]


def pred_list():
    names = sorted(ATOMS)
    out = []
    for sh in SHAPES:
        k = 3 if "C" in sh else (2 if "B" in sh else 1)
        for combo in itertools.permutations(names, k):
            out.append((sh, combo))
    return out


def eval_pred(sh, combo, d):
    A = ATOMS[combo[0]](d)
    B = ATOMS[combo[1]](d) if len(combo) > 1 else None
    C = ATOMS[combo[2]](d) if len(combo) > 2 else None
    return {"A": lambda: A, "A&B": lambda: A & B, "A|B": lambda: A | B, "(A|B)&C": lambda: (A | B) & C, "(A&B)|C": lambda: (A & B) | C,
            "A&B&C": lambda: A & B & C, "A|B|C": lambda: A | B | C, "(A&B)|(A&C)": lambda: (A & B) | (A & C)}[sh]()


def cases(tier, seed):
    for ds in DATASETS:
        for reader in READERS:
            for cd in (False, True):
                yield {"dataset": ds, "reader": reader, "calculate_divisions": cd, "seed": seed}
    if tier == "thorough":
        for ds in DATASETS:
            for reader in READERS:
                for chunk in range(1, 8):
                    yield {"dataset": ds, "reader": reader, "calculate_divisions": bool(chunk % 2), "seed": seed, "chunk": chunk}


def setup_worker(tier, seed):
    M.RULES.install()
    setup_worker.tier = tier


setup_worker.tier = "quick"


def reader_nodes(e):
    nodes = list(e.walk())
    for x in list(nodes):
        if type(x).__name__ == "Fused":
            nodes += list(x.exprs)
    out = [x for x in nodes if type(x).__name__.startswith("ReadParquet")]
    out += [x.operand("_expr") for x in nodes if type(x).__name__ in ("FusedIO", "FusedParquetIO")]
    return out


def run_case(case):
    import dask_expr as dx

    tier = setup_worker.tier
    scratch = os.environ.get("VMON_SCRATCH", "/tmp")
    ds, reader, cd = case["dataset"], case["reader"], case["calculate_divisions"]
    rng = derive_rng("C18", case["seed"], ds, reader, cd, case.get("chunk", 0))
    counters, sets = {}, {}
    rec = {"status": "ok", "counters": counters, "sets": sets, "nt": []}

    def bump(k, v=1):
        counters[k] = counters.get(k, 0) + v

    pdf = make_pdf(ds)
    path = os.path.join(scratch, f"c18-{os.getpid()}-{ds}")
    if os.path.exists(path):
        shutil.rmtree(path)
    if ds == "with_empty_file":
        from vmon import layouts

        src = layouts.build(pdf, {"kind": "cuts", "cuts": [10, 10, 25], "via": "from_map", "divisions": "unknown"})
    else:
        src = dx.from_pandas(pdf, npartitions=NFILES[ds], sort=(ds not in ("five_unsorted",)))
    viol = None
    try:
        src.to_parquet(path, write_index=True)
    except Exception as ex:
        return {"status": "refused", "counters": {"write_refused": 1}, "sets": {"write_refusals": [f"{ds}:{type(ex).__name__}:{str(ex)[:60]}"]}}
    if ds in ROTATIONS:
        files = sorted(f for f in os.listdir(path) if f.endswith(".parquet"))
        perm = ROTATIONS[ds]
        if len(files) == len(perm):
            for f in files:
                os.rename(os.path.join(path, f), os.path.join(path, f + ".tmp"))
            for i, f in enumerate(files):
                os.rename(os.path.join(path, files[perm[i]] + ".tmp"), os.path.join(path, f))
            bump("file_order_permuted_datasets")
    kw = {"filesystem": reader}
    if cd:
        kw["calculate_divisions"] = True
    written = concat_parts(exec_ref(src.expr))
    try:
        r = dx.read_parquet(path, **kw)
        full_parts = exec_ref(r.expr)
        full = concat_parts(full_parts)
    except Exception as ex:
        viol = dict(progcase.exc_info(ex), oracle="roundtrip_reads")
        full = None
    if viol is None:
        bump("roundtrips_compared")
        # without statistics the partitions come in file-name order, which for the permuted datasets is not the written order
        # (a reader that does not re-order the files by their statistics reports unknown divisions for them)
        d = compare(full, written, order=not (ds in ROTATIONS and not (cd and r.known_divisions)), index=True, dtypes=False)
        if d:
            viol = dict(d, oracle="roundtrip", index_name_written=repr(written.index.name), index_name_read=repr(full.index.name))
    if viol is None and cd:
        probs, st = M.audit_plan(r.expr, parts=full_parts, schema=False, structure=True)
        bump("division_audits")
        if r.known_divisions:
            bump("divisions_known_after_read")
        if probs:
            viol = dict(probs[0], stage="read")
    if viol is None:
        # optimized plain read (tuning may fuse files)
        try:
            ro = r.optimize()
            d = compare(concat_parts(exec_ref(ro.expr)), full, order=True, index=True, dtypes=False)
            if d:
                viol = dict(d, oracle="optimized_read_vs_full")
        except Exception as ex:
            viol = dict(progcase.exc_info(ex), oracle="optimized_read_runs")
    if viol is None:
        # column-projected reads under a parent: multi-file fused reads (FusedIO / FusedParquetIO)
        for proj in (["rid"], ["a", "rid"], ["b", "s"]):
            try:
                qo = (r[proj]).optimize() if proj != ["rid"] else (r[proj] + 0).optimize()
                got = concat_parts(exec_ref(qo.expr))
            except Exception as ex:
                viol = dict(progcase.exc_info(ex), oracle="projected_read_runs", proj=proj)
                break
            if {"FusedIO", "FusedParquetIO"} & set(progcase.plan_classes(qo.expr)):
                bump("fused_reads")
                rec["nt"].append(f"{ds}|{reader}|{cd}|fused|{proj}")
                if cd:
                    probs, st = M.audit_plan(qo.expr, parts=exec_ref(qo.expr), schema=False, structure=True)
                    if probs:
                        viol = dict(probs[0], stage="fused-read", proj=proj)
                        break
            bump("columns_absorbed")
            d = compare(got, full[proj] + 0 if proj == ["rid"] else full[proj], order=True, index=True, dtypes=False)
            if d:
                viol = dict(d, oracle="projected_read_vs_full", proj=proj, classes=progcase.plan_classes(qo.expr))
                break
    preds = pred_list()
    rng.shuffle(preds)
    preds = preds[: CONFIG[tier]["preds_per_cell"]]
    projections = [None, ["rid", "a"], ["b"], ["s", "rid", "t"], "rid"]
    if viol is None:
        for sh, combo in preds:
            proj = projections[rng.randrange(len(projections))]
            user_f = rng.random() < 0.3
            order_pf = rng.random() < 0.5
            try:
                kw2 = dict(kw)
                base = full
                if user_f:
                    kw2["filters"] = [("rid", ">=", 5)]
                    base = full[full.rid >= 5]
                rr = dx.read_parquet(path, **kw2)
                simple = all(a_ in ("a>2", "a<=4", "a==3", "b>1.5", "b!=2.0", "s==x", "rid<20", "t>d10", "b<=3") for a_ in combo)
                if proj is not None and order_pf and isinstance(proj, list) and simple and set(c for a_ in combo for c in [a_.split(">")[0].split("<")[0].split("=")[0].split("!")[0]]) <= set(proj):
                    q = rr[proj]
                    q = q[eval_pred(sh, combo, q)]
                    exp = base[proj]
                    exp = exp[eval_pred(sh, combo, exp)]
                else:
                    q = rr[eval_pred(sh, combo, rr)]
                    exp = base[eval_pred(sh, combo, base)]
                    if proj is not None:
                        q, exp = q[proj], exp[proj]
                M.RULES.reset()
                qo = q.optimize()
                ev = M.RULES.snapshot()
                got = concat_parts(exec_ref(qo.expr))
            except Exception as ex:
                viol = dict(progcase.exc_info(ex), oracle="pushdown_runs", pred=f"{sh}:{combo}", proj=proj)
                break
            bump("pushdown_cells_compared")
            rn = reader_nodes(qo.expr)
            absorbed_f = bool(rn) and rn[0].operand("filters") is not None and repr(rn[0].operand("filters")) != repr(kw2.get("filters"))
            absorbed_c = bool(rn) and rn[0].operand("columns") is not None
            fused = bool({"FusedIO", "FusedParquetIO"} & set(progcase.plan_classes(qo.expr)))
            if absorbed_f:
                bump("filters_absorbed")
            if absorbed_c:
                bump("columns_absorbed")
            if fused:
                bump("fused_reads")
            if absorbed_f or absorbed_c or fused:
                rec["nt"].append(f"{ds}|{reader}|{cd}|{sh}|{combo}|{proj}|{user_f}")
            d = compare(got, exp, order=True, index=True, dtypes=False)
            if d:
                viol = dict(d, oracle="pushdown_vs_pandas", pred=f"{sh}:{combo}", proj=proj, user_filters=user_f, classes=progcase.plan_classes(qo.expr))
                try:
                    flt = [c_ for x_ in rn for c_ in (x_.operand("filters") or [])]
                    if not (hasattr(got, "columns") and "rid" in got.columns) and not (isinstance(got, pd.Series) and got.name == "rid"):
                        # the projection dropped the row id: recompute the same filter unprojected, only to name the missing rows
                        got = concat_parts(exec_ref(rr[eval_pred(sh, combo, rr)].optimize().expr))
                        exp = base[eval_pred(sh, combo, base)]
                    tuples = [t for conj in flt for t in (conj if isinstance(conj, (list, tuple)) and conj and isinstance(conj[0], (list, tuple)) else [conj])]
                    ne_cols = sorted({t[0] for t in tuples if t[1] == "!="})
                    if isinstance(exp, pd.Series) and exp.name == "rid" and isinstance(got, pd.Series):
                        missing = sorted(set(exp.tolist()) - set(got.tolist()))
                        srcf = full.set_index("rid")
                    elif hasattr(exp, "columns") and "rid" in exp.columns and hasattr(got, "columns") and "rid" in got.columns:
                        missing = sorted(set(exp["rid"].tolist()) - set(got["rid"].tolist()))
                        srcf = full.set_index("rid")
                    else:
                        missing = sorted(set(exp.index.tolist()) - set(got.index.tolist())) if full.index.is_unique else []
                        srcf = full
                    viol["missing_all_null_in_ne_col"] = bool(missing) and bool(ne_cols) and all(any(pd.isna(srcf.loc[m, c]) for c in ne_cols) for m in missing) and len(got) < len(exp)
                except Exception:
                    pass
                break
        # partition subsets and lengths
    if viol is None:
        n = r.npartitions
        for P in ([0], [n - 1], list(range(0, n, 2)), list(reversed(range(n)))[: max(1, n // 2)]):
            for proj in (None, ["a", "rid"]):
                try:
                    y = (r if proj is None else r[proj]).partitions[P]
                    exp = [full_parts[i] if proj is None else full_parts[i][proj] for i in P]
                    got = exec_ref(y.optimize().expr)
                except Exception as ex:
                    viol = dict(progcase.exc_info(ex), oracle="partition_subset_runs", P=P)
                    break
                bump("partition_subsets_compared")
                d = compare(concat_parts(got), concat_parts(exp), order=True, index=True, dtypes=False)
                if d:
                    viol = dict(d, oracle="partition_subset_vs_full", P=P, proj=proj, classes=progcase.plan_classes(y.optimize().expr))
                    break
            if viol:
                break
    if viol is None:
        from dask_expr._reductions import Len

        for tag, coll, exp_n in (("len", r, len(full)), ("len_proj", r[["a"]], len(full)), ("len_filter", r[r.a > 2], int((full.a > 2).sum())),
                                 ("len_elemwise", r[["a", "rid"]] + 1, len(full))):
            try:
                lo = Len(coll.expr).optimize()
                if type(lo).__name__ == "Literal":
                    bump("len_from_metadata")
                    rec["nt"].append(f"{ds}|{reader}|{cd}|{tag}")
                got_n = int(dx.new_collection(Len(coll.expr)).compute(scheduler="sync"))
            except Exception as ex:
                viol = dict(progcase.exc_info(ex), oracle="len_runs", which=tag)
                break
            bump("len_checks")
            if got_n != exp_n:
                viol = {"oracle": "len_vs_data", "symptom": "len-differs", "got": got_n, "exp": exp_n, "which": tag, "from_metadata": type(lo).__name__ == "Literal"}
                break
    if viol is None:
        # overwrite guard: a query that still reads the dataset must not overwrite it
        try:
            dx.read_parquet(path, **kw).assign(zz=1).to_parquet(path, overwrite=True)
            viol = {"oracle": "overwrite_guard", "symptom": "overwrite-of-dataset-being-read-not-refused"}
        except ValueError:
            bump("overwrite_refusals_checked")
        except Exception as ex:
            bump("overwrite_refusals_checked")
            sets.setdefault("overwrite_refusal_kinds", []).append(type(ex).__name__)
        if viol is None:
            # ... also when the query reads only a part of the dataset that is overwritten (one file of it)
            try:
                one = sorted(f for f in os.listdir(path) if f.endswith(".parquet"))[0]
                dx.read_parquet(os.path.join(path, one), **kw).assign(zz=1).to_parquet(path, overwrite=True)
                viol = {"oracle": "overwrite_guard", "symptom": "overwrite-of-dataset-being-read-not-refused", "detail": "query reads one file of the dataset"}
            except ValueError:
                bump("overwrite_refusals_checked")
            except Exception as ex:
                # not a refusal: the write started (and removed the query's own input) before failing
                viol = dict(progcase.exc_info(ex), oracle="overwrite_guard", symptom="overwrite-of-dataset-being-read-not-refused", detail2="query reads one file of the dataset")
        if viol is None and not os.path.exists(path):
            viol = {"oracle": "overwrite_guard", "symptom": "dataset-destroyed-by-refused-overwrite"}
        if viol is None:
            after = dx.read_parquet(path, **kw).compute(scheduler="sync")
            d = compare(after, full, order=True, index=True, dtypes=False)
            if d:
                viol = dict(d, oracle="overwrite_guard", detail="dataset changed although the overwrite was refused")
    shutil.rmtree(path, ignore_errors=True)
    if viol:
        viol.update({"dataset": ds, "reader": reader, "calculate_divisions": cd, "ops": [ds, reader], "unnamed_index": pdf.index.name is None,
                     "src": [f"dataset={ds} files={NFILES[ds]} reader={reader} calculate_divisions={cd}: {viol.get('pred', '')} {viol.get('proj', '')}"]})
        rec["status"] = "violation"
        rec["viol"] = viol
        rec["case"] = dict(case)
    if ds == "three_named" and reader == "arrow" and cd:
        rec["sample"] = {"cell": case, "predicates_tried": [f"{sh}:{','.join(c)}" for sh, c in preds[:6]], "files": NFILES[ds]}
    return rec
