"""C08 - expression names are deterministic and collision-free.

Events: (a) the same program built in another process / under another PYTHONHASHSEED / in another construction
order / after unrelated queries gives a different `_name` for some node or different expression-derived graph
keys; (b) two nodes with equal `_name` and different structural signature (M-new: Expr.__new__ dedupe hits);
(c) a single-field mutant of a program (one literal, column, operator sibling, keyword, data cell, index, dtype,
npartitions) with the same root name although pandas computes a different result.
"""
import copy
import json
import os
import re
import subprocess
import sys

import dask
import numpy as np
import pandas as pd

from vmon import VERIF_DIR
from vmon import monitors as M
from vmon import progcase, programs, tables
from vmon.compare import compare
from vmon.util import derive_rng, shash

LEVEL = "exploration"
MANIFEST = {
    "text": "Batches of seeded random programs are built in the worker and again in fresh interpreters started with PYTHONHASHSEED in {1, 2, random}, in a permuted order, interleaved with unrelated filler queries and gc.collect(); the names of every expression of the logical and the optimized plan and the expression-derived graph keys must be identical. Inside the worker a monitor on Expr.__new__ compares, on every dedupe hit, a structural signature of the new operands (own content hashes, not dask's tokenize) with the existing instance's. Every program is also mutated in one field at a time (literals, column names, sibling operators, keywords, one data cell, the index only, a dtype only, the partition count); a mutant that keeps the root name although pandas gives a different result is a violation. 14 pairs of live collections over different data (from_graph with user keys, persist before / after a file rewrite, impure from_map, closures, rewritten csv / parquet) must not share a name.",
    "note": "DiskShuffle's per-materialisation uuid keys (zpartd-/shuffle-partition-/barrier-) are masked: they are regenerated inside one process too and never shared between graphs. API-level normalisation makes some spellings legitimately identical, so an equal name is a violation only when the pandas results differ.",
    "technique": "runtime monitoring: cross-process / cross-hash-seed name log comparison (offline checker) + M-new dedupe-signature monitor + single-field mutant aliasing oracle",
    "design_ref": "DESIGN.md section 4, C08",
}
RULE = ("batches of 8 programs x 2 fresh processes (hash seeds 1/2/random, permuted order, filler + gc); per program ~12 single-field mutants; "
        "non-trivial = program whose plan has >= 3 expression nodes and was compared across processes; distinct by program hash")
ASSUMPTIONS = ["uuid keys private to one DiskShuffle materialisation are masked", "pandas decides whether two spellings are semantically different"]
CONFIG = {
    "quick": {"budget_s": 45, "batches": 48, "batch": 8, "procs": 2, "mutants": 10, "case_timeout_s": 900},
    "thorough": {"budget_s": 600, "batches": 150, "batch": 10, "procs": 3, "mutants": 30, "case_timeout_s": 300},
}
TIER = {"t": "quick"}
MASK = re.compile(r"(zpartd|shuffle-partition|barrier|split-|shuffle-|repartition-split-\d+)-?[0-9a-f]{32}")
UUID_KEYS = re.compile(r"^(zpartd-|shuffle-partition-|barrier-)[0-9a-f]{32}")


def floors(tier):
    return {"cases": 20, "programs_compared_across_processes": 250, "processes_spawned": 40, "names_compared": 2500, "graph_keys_compared": 5000,
            "mutants_built": 1200, "mutants_distinct_name": 900, "dedupe_hits_deep_checked": 150, "nontrivial": 120, "set:expr_classes": 60, "set:mutation_kinds": 8}


def cases(tier, seed):
    yield {"canary": "agg-dict-order"}
    for name in PAIR_TARGETS:
        yield {"pair": name}
    for i in range(CONFIG[tier]["batches"]):
        yield {"batch": i, "seed": seed}


def setup_worker(tier, seed):
    TIER["t"] = tier
    M.NEWMON.install()


def mask_key(k):
    if isinstance(k, tuple):
        head = k[0]
        if isinstance(head, str) and UUID_KEYS.match(head):
            return ("<uuid>",) + tuple(k[1:])
        return k
    if isinstance(k, str) and UUID_KEYS.match(k):
        return "<uuid>"
    return k


def observe(coll):
    """names of all expressions (logical + optimized), masked graph keys of the optimized plan"""
    e = coll.expr
    logical = sorted((type(x).__name__, x._name) for x in e.walk())
    try:
        o = e.optimize()
        optimized = sorted((type(x).__name__, x._name) for x in o.walk())
        g = o.__dask_graph__()
        keys = sorted(repr(mask_key(k)) for k in g)
        optname = o._name
    except Exception as ex:
        optimized, keys, optname = [("ERR", type(ex).__name__)], [], None
    return {"root": e._name, "logical": logical, "optimized": optimized, "optroot": optname, "keys": keys}


def run_case(case):
    if case.get("canary") == "agg-dict-order":
        return run_canary()
    if "pair" in case:
        return run_pair(case["pair"])
    conf = CONFIG[TIER["t"]]
    scratch = os.environ.get("VMON_SCRATCH", "/tmp")
    counters, sets = {}, {"expr_classes": set(), "mutation_kinds": set()}
    rec = {"status": "ok", "counters": counters, "sets": sets, "nt": []}

    def bump(k, v=1):
        counters[k] = counters.get(k, 0) + v

    items = []
    if "progs" in case:
        items = case["progs"]
    else:
        for j in range(conf["batch"]):
            prof = ["default", "projection", "structure", "filter", "blockwise"][(case["batch"] + j) % 5]
            prog = progcase.gen_prog(("C08", case["seed"], case["batch"], j), profile=prof)
            items.append({"prog": prog, "method": derive_rng("C08m", shash(prog)).choice(["tasks", "disk"])})
    viol = None
    M.NEWMON.reset()
    mine = {}
    built = {}
    for i, it in enumerate(items):
        try:
            b = progcase.Built(it["prog"]).build_sources()
            b.eval_dx(it["method"])
            with dask.config.set({"dataframe.shuffle.method": it["method"]}):
                mine[str(i)] = observe(b.out_dx)
            built[i] = b
            try:
                vals_ = b.eval_pd()
                it["_persist_unordered"] = any(st_["op"] == "persist" and not vals_[st_["in"][0]].order for st_ in it["prog"]["steps"])
            except Exception:
                it["_persist_unordered"] = False
            sets["expr_classes"].update(c for c, _ in mine[str(i)]["logical"])
            sets["expr_classes"].update(c for c, _ in mine[str(i)]["optimized"])
        except Exception as ex:
            mine[str(i)] = {"error": f"{type(ex).__name__}: {ex}"[:200]}
    # (b) dedupe hits with different structure
    bump("expr_new_calls", M.NEWMON.calls)
    bump("dedupe_hits_deep_checked", M.NEWMON.deep_checked)
    real_mm = [m for m in M.NEWMON.mismatches if "monitor_error" not in m]
    bump("newmon_errors", len(M.NEWMON.mismatches) - len(real_mm))
    for m in real_mm:
        if benign_alias(m):
            bump("dedupe_benign_alias")
            continue
        viol = dict(m, oracle="dedupe_signature", symptom="equal-name-different-operands", mech=f"{m['cls']}:{','.join(map(str, m['params']))}")
        break
    # (a) other processes
    if viol is None:
        rng = derive_rng("C08b", case.get("batch"), case.get("seed"))
        for pi in range(conf["procs"]):
            order = list(range(len(items)))
            rng.shuffle(order)
            spec = os.path.join(scratch, f"c08-{os.getpid()}-{case.get('batch')}-{pi}.json")
            from vmon.util import jsonable

            with open(spec, "w") as fh:
                json.dump(jsonable({"items": items, "order": order}), fh)
            env = dict(os.environ)
            env["PYTHONPATH"] = VERIF_DIR + (os.pathsep + env["PYTHONPATH"] if env.get("PYTHONPATH") else "")
            hs = ["1", "2", "random"][(pi + (case.get("batch") or 0)) % 3]
            env["PYTHONHASHSEED"] = hs
            try:
                r = subprocess.run([sys.executable, "-W", "ignore", "-m", "vmon.namer", spec], env=env, capture_output=True, text=True, timeout=400)
            except subprocess.TimeoutExpired:
                bump("namer_timeout")
                continue
            finally:
                try:
                    os.remove(spec)
                except OSError:
                    pass
            line = next((ln for ln in r.stdout.splitlines() if ln.startswith("NAMER ")), None)
            if line is None:
                bump("namer_no_output")
                sets.setdefault("namer_errors", set()).add((r.stderr or "")[-150:])
                continue
            theirs = json.loads(line[6:])
            bump("processes_spawned")
            for i in range(len(items)):
                a, t = mine.get(str(i)), theirs.get(str(i))
                if not a or not t or "error" in a or "error" in t:
                    bump("program_errors_in_one_process")
                    continue
                if items[i].get("_persist_unordered"):
                    # a persisted value is named after its data; where the program leaves the row order undefined two processes
                    # may persist differently ordered rows
                    bump("skipped_persist_of_unordered")
                    continue
                bump("programs_compared_across_processes")
                bump("names_compared", len(a["logical"]) + len(a["optimized"]))
                bump("graph_keys_compared", len(a["keys"]))
                for field in ("root", "logical", "optimized", "optroot", "keys"):
                    av, tv = a[field], t[field]
                    if field in ("logical", "optimized"):
                        av, tv = [list(x) for x in av], [list(x) for x in tv]
                    if av != tv:
                        diff = [x for x in (av if isinstance(av, list) else [av]) if x not in (tv if isinstance(tv, list) else [tv])][:3]
                        viol = {"oracle": "cross_process_names", "symptom": f"{field}-differ", "hashseed": hs, "diff": repr(diff)[:400], "prog_index": i,
                                "classes": sorted({d[0] for d in diff if isinstance(d, list)}) if field in ("logical", "optimized") else []}
                        vprog = items[i]
                        break
                if viol:
                    break
                if len(a["logical"]) >= 3:
                    rec["nt"].append(shash(items[i]["prog"]))
            if viol:
                break
    # (c) single-field mutants
    if viol is None:
        for i, it in enumerate(items):
            if i not in built or "error" in mine[str(i)]:
                continue
            v = mutant_check(it, built[i], mine[str(i)]["root"], conf["mutants"], bump, sets)
            if v:
                viol = v
                vprog = it
                break
    sets["expr_classes"] = sorted(sets["expr_classes"])
    sets["mutation_kinds"] = sorted(sets["mutation_kinds"])
    if "namer_errors" in sets:
        sets["namer_errors"] = sorted(sets["namer_errors"])
    if viol:
        if "vprog" in dir() or "vprog" in locals():
            pass
        try:
            viol["src"] = programs.program_source(vprog["prog"])
            viol["ops"] = programs.program_ops(vprog["prog"])
            rec["case"] = {"progs": [vprog], "batch": case.get("batch"), "seed": case.get("seed")}
        except Exception:
            rec["case"] = dict(case)
        rec["status"] = "violation"
        rec["viol"] = viol
    if case.get("batch") == 0:
        rec["sample"] = {"program": programs.program_source(items[0]["prog"]), "names_logical": mine["0"].get("logical", [])[:5], "n_graph_keys": len(mine["0"].get("keys", []))}
    return rec


def benign_alias(m):
    """operands that differ structurally but are interchangeable by construction (same values, other container / numeric type)"""
    def norm(s):
        s = re.sub(r"np\.(int|float)\d*\(([^)]*)\)", r"\2", s)
        s = s.replace("(", "[").replace(")", "]").replace(",]", "]")
        return s
    try:
        return all(norm(a) == norm(b) for a, b in zip(m["new"], m["old"])) and bool(m["new"])
    except Exception:
        return False


# ---- mutants -----------------------------------------------------------------------------------

SIBLINGS = {"sum": "mean", "mean": "sum", "min": "max", "max": "min", "count": "size", "gt": "ge", "lt": "le", "ge": "gt", "le": "lt", "eq": "ne", "ne": "eq",
            "and": "or", "or": "and", "isna": "notna", "notna": "isna", "add": "sub", "sub": "add", "cumsum": "cummax", "cummax": "cumsum", "shift": "diff",
            "diff": "shift", "ffill": "bfill", "bfill": "ffill", "nlargest": "nsmallest", "nsmallest": "nlargest", "inner": "left", "left": "inner",
            "outer": "inner", "right": "inner", "std": "var", "var": "std", "first": "last", "last": "first", "add1": "mul2", "mul2": "add1", "str_upper": "str_len",
            "dt_year": "dt_dow", "cumcount": "cumsum", "add_prefix": "add_suffix", "add_suffix": "add_prefix"}


def enumerate_mutations(prog, rng, limit):
    """-> list of (kind, mutated program).  One field at a time."""
    out = []

    def walk(obj, path):
        if isinstance(obj, dict):
            for k, v in obj.items():
                yield from walk(v, path + [k])
        elif isinstance(obj, list):
            for j, v in enumerate(obj):
                yield from walk(v, path + [j])
        else:
            yield path, obj

    def setp(p, path, val):
        o = p
        for k in path[:-1]:
            o = o[k]
        o[path[-1]] = val

    for si, st in enumerate(prog["steps"]):
        for path, val in walk(st["p"], []):
            full = ["steps", si, "p"] + path
            if isinstance(val, bool):
                out.append(("keyword-bool", full, not val))
            elif isinstance(val, (int, float)) and not isinstance(val, bool):
                out.append(("literal-number", full, val + 1))
            elif isinstance(val, str):
                if val in SIBLINGS:
                    out.append(("sibling-operator", full, SIBLINGS[val]))
                elif val in ("i", "k", "f", "g", "u", "rid", "s", "b", "c", "t"):
                    alt = {"i": "k", "k": "i", "f": "g", "g": "f", "u": "rid", "rid": "u", "s": "c", "c": "s", "b": "i", "t": "u"}[val]
                    out.append(("column-name", full, alt))
                elif val in ("p_", "x", "_s", "y", "z1", "z2", "aa", "m"):
                    out.append(("literal-string", full, val + "q"))
        if st["op"] in SIBLINGS:
            out.append(("sibling-operator", ["steps", si, "op"], SIBLINGS[st["op"]]))
    for ti, t in enumerate(prog["tables"]):
        if not any(prog["sources"][si_]["table"] == ti for si_ in range(len(prog["sources"])) if si_ in set(__import__("vmon.checks.c17", fromlist=["ancestors"]).ancestors(prog, prog["out"]))):
            continue
        out.append(("data-one-cell", ["tables", ti, "poke"], [1, "g", 0.25]))
        out.append(("data-one-cell-int", ["tables", ti, "poke"], [2, "i", 1]))
        out.append(("data-index-only", ["tables", ti, "poke_index"], 1))
        out.append(("data-dtype-only", ["tables", ti, "astype"], {"i": "int32"}))
        out.append(("data-string-cell", ["tables", ti, "poke"], [0, "s", "zz"]))
    from vmon.checks.c17 import ancestors

    used = set(ancestors(prog, prog["out"]))
    for si_, s in enumerate(prog["sources"]):
        if si_ not in used:
            continue  # a source the result does not depend on cannot change the root name
        lay = s["layout"]
        if "npartitions" in lay:
            out.append(("npartitions", ["sources", si_, "layout", "npartitions"], lay["npartitions"] + 1))
        if "chunksize" in lay:
            out.append(("chunksize", ["sources", si_, "layout", "chunksize"], lay["chunksize"] + 1))
        if lay.get("kind") == "cuts" and lay["cuts"]:
            c2 = list(lay["cuts"])
            c2[0] = max(0, c2[0] - 1) if c2[0] > 0 else c2[0] + 1
            out.append(("cut-vector", ["sources", si_, "layout", "cuts"], sorted(c2)))
    rng.shuffle(out)
    res = []
    for kind, path, val in out[:limit]:
        p2 = copy.deepcopy(prog)
        o = p2
        for k in path[:-1]:
            o = o[k]
        o[path[-1]] = val
        res.append((kind, p2, path))
    return res


def mutant_check(item, built, root_name, limit, bump, sets):
    prog, method = item["prog"], item["method"]
    rng = derive_rng("C08mut", shash(prog))
    try:
        ref_pd = built.eval_pd()[prog["out"]]
    except Exception:
        return None
    for kind, p2, path in enumerate_mutations(prog, rng, limit):
        try:
            b2 = progcase.Built(p2).build_sources()
            b2.eval_dx(method)
            name2 = b2.out_dx.expr._name
        except Exception:
            bump("mutants_not_buildable")
            continue
        bump("mutants_built")
        sets["mutation_kinds"].add(kind)
        if name2 != root_name:
            bump("mutants_distinct_name")
            continue
        # same name: is the mutant semantically different?  pandas decides
        try:
            vals2 = b2.eval_pd()
            # a mutant that selects one label twice is outside the workload class of every generator here (programs with
            # duplicated column labels are never generated; dask-expr merges stacked projections by label)
            if any(isinstance(v_.pd, pd.DataFrame) and v_.pd.columns.has_duplicates for v_ in vals2):
                bump("mutants_invalid_duplicate_labels")
                continue
            v2 = vals2[p2["out"]]
            d = compare(v2.pd, ref_pd.pd, order=ref_pd.order and v2.order, index=ref_pd.index and v2.index, dtypes=True, exact=True)
            same_struct = kind in ("npartitions", "chunksize", "cut-vector")
        except Exception:
            bump("mutant_pandas_refused")
            continue
        if d is None and not same_struct:
            bump("mutants_benign_alias")
            continue
        if kind in ("npartitions", "chunksize", "cut-vector"):
            # the same rows in another partitioning must be a different source expression (different tasks) - unless the
            # request did not change the actual partitioning (from_pandas caps npartitions at the number of distinct index values)
            def layout_sig(bb):
                return [[len(p_) for p_ in __import__("vmon.execs", fromlist=["exec_ref"]).exec_ref(c.expr)] for c in bb.src_dx]
            if layout_sig(b2) == layout_sig(built):
                bump("mutants_benign_alias")
                continue
        return {"oracle": "mutant_alias", "symptom": "mutant-shares-name", "kind": kind, "path": path, "pandas_diff": d, "mech": kind}
    return None


PAIR_TARGETS = ["from_graph_same_keys", "persist_from_map_rewritten_file", "persist_impure_from_map", "from_pandas_values", "map_partitions_closure", "from_array_values",
                "from_dict_values", "from_delayed_impure", "from_map_args", "assign_user_array", "isin_values", "map_dict_values", "read_csv_rewritten", "read_parquet_rewritten"]


def _pair_builders():
    """name -> builder returning (q1, q2): two collections over DIFFERENT data (or operations) that therefore must not share a name;
    both stay alive, so a shared name makes the second one the first object (Expr.__new__ dedupe) and return its data."""
    import tempfile

    import dask_expr as dx

    scratch = os.environ.get("VMON_SCRATCH") or tempfile.gettempdir()
    p1 = pd.DataFrame({"x": np.arange(10), "y": np.arange(10) * 1.5})
    p2 = pd.DataFrame({"x": np.arange(10) + 100, "y": np.arange(10) * 2.5})
    out = {}

    def from_graph():
        def mk(p):
            layer = {("userkey", 0): p.iloc[:5], ("userkey", 1): p.iloc[5:]}
            return dx.from_graph(layer, p.iloc[:0], (None, None, None), [("userkey", 0), ("userkey", 1)], "from-graph")
        return mk(p1), mk(p2)

    out["from_graph_same_keys"] = from_graph

    def persist_rewritten():
        path = os.path.join(scratch, f"c08-pair-{os.getpid()}.csv")
        p1.to_csv(path, index=False)
        a = dx.from_map(pd.read_csv, [path]).persist(scheduler="sync")
        p2.to_csv(path, index=False)
        b = dx.from_map(pd.read_csv, [path]).persist(scheduler="sync")
        return a, b

    out["persist_from_map_rewritten_file"] = persist_rewritten

    def persist_impure():
        state = {"n": 0}

        def f(i):
            state["n"] += 1
            return (p1 if state["n"] <= 2 else p2).iloc[i * 5:(i + 1) * 5]
        a = dx.from_map(f, [0, 1], meta=p1.iloc[:0]).persist(scheduler="sync")
        b = dx.from_map(f, [0, 1], meta=p1.iloc[:0]).persist(scheduler="sync")
        return a, b

    out["persist_impure_from_map"] = persist_impure
    out["from_pandas_values"] = lambda: (dx.from_pandas(p1, npartitions=2), dx.from_pandas(p2, npartitions=2))
    out["map_partitions_closure"] = lambda: (lambda d: ((lambda k: d.map_partitions(lambda x: x + k))(1), (lambda k: d.map_partitions(lambda x: x + k))(2)))(dx.from_pandas(p1, npartitions=2))
    out["from_array_values"] = lambda: (dx.from_array(p1.to_numpy(), chunksize=5, columns=["x", "y"]), dx.from_array(p2.to_numpy(), chunksize=5, columns=["x", "y"]))
    out["from_dict_values"] = lambda: (dx.from_dict(p1.to_dict("list"), npartitions=2), dx.from_dict(p2.to_dict("list"), npartitions=2))

    def from_delayed():
        import dask

        return (dx.from_delayed([dask.delayed(p1.iloc[:5]), dask.delayed(p1.iloc[5:])], meta=p1.iloc[:0]),
                dx.from_delayed([dask.delayed(p2.iloc[:5]), dask.delayed(p2.iloc[5:])], meta=p1.iloc[:0]))

    out["from_delayed_impure"] = from_delayed
    out["from_map_args"] = lambda: (dx.from_map(lambda i, off=0: p1.iloc[i * 5:(i + 1) * 5] + off, [0, 1], off=0), dx.from_map(lambda i, off=0: p1.iloc[i * 5:(i + 1) * 5] + off, [0, 1], off=100))
    out["assign_user_array"] = lambda: (lambda d: (d.assign(z=dx.from_pandas(pd.Series(np.arange(10)), npartitions=2)), d.assign(z=dx.from_pandas(pd.Series(np.arange(10) + 100), npartitions=2))))(dx.from_pandas(p1, npartitions=2))
    out["isin_values"] = lambda: (lambda d: (d[d.x.isin([1, 2, 3])], d[d.x.isin([1, 2, 4])]))(dx.from_pandas(p1, npartitions=2))
    out["map_dict_values"] = lambda: (lambda d: (d.x.map({1: 10, 2: 20}, meta=("x", "f8")), d.x.map({1: 10, 2: 30}, meta=("x", "f8"))))(dx.from_pandas(p1, npartitions=2))

    def csv_rewritten():
        path = os.path.join(scratch, f"c08-pair-rc-{os.getpid()}.csv")
        p1.to_csv(path, index=False)
        a = dx.read_csv(path)
        p2.iloc[:7].to_csv(path, index=False)
        os.utime(path, (1, 1))
        b = dx.read_csv(path)
        return a, b

    out["read_csv_rewritten"] = csv_rewritten

    def pq_rewritten():
        import shutil

        path = os.path.join(scratch, f"c08-pair-pq-{os.getpid()}")
        shutil.rmtree(path, ignore_errors=True)
        dx.from_pandas(p1, npartitions=2).to_parquet(path)
        a = dx.read_parquet(path, filesystem="arrow")
        shutil.rmtree(path)
        dx.from_pandas(p2, npartitions=2).to_parquet(path)
        b = dx.read_parquet(path, filesystem="arrow")
        return a, b

    out["read_parquet_rewritten"] = pq_rewritten
    return out


def run_pair(name):
    """Two live collections over different data: equal names are only benign if both really return the same rows."""
    rec = {"status": "ok", "counters": {"distinct_pairs_checked": 1}, "nt": [f"pair:{name}"]}
    try:
        a, b = _pair_builders()[name]()
    except Exception as ex:
        return {"status": "refused", "counters": {"build_refused": 1}, "sets": {"pair_refusals": [f"{name}:{type(ex).__name__}:{str(ex)[:60]}"]}}
    na, nb = a.expr._name, b.expr._name
    shared = {x._name for x in a.expr.walk()} & {x._name for x in b.expr.walk()}
    try:
        ra = a.compute(scheduler="sync")
        rb = b.compute(scheduler="sync")
    except Exception as ex:
        return {"status": "undecided", "counters": {"pair_compute_raises": 1}, "sets": {"pair_refusals": [f"{name}:{type(ex).__name__}:{str(ex)[:60]}"]}}
    same_result = compare(ra, rb, order=True, index=True, dtypes=True, exact=True) is None
    if na == nb and not same_result:
        # cannot happen unless the two objects are distinct yet equally named
        rec["status"] = "violation"
        rec["viol"] = {"oracle": "mutant_alias", "symptom": "different-data-shares-name", "kind": name, "mech": name, "src": [f"pair:{name}"], "ops": [name]}
        rec["case"] = {"pair": name}
    elif na == nb or (a.expr is b.expr):
        # equal names and equal results although the inputs differ: the second collection IS the first (dedupe) - its own data is lost
        rec["status"] = "violation"
        rec["viol"] = {"oracle": "mutant_alias", "symptom": "different-data-shares-name", "kind": name, "mech": name, "src": [f"pair:{name}"], "ops": [name],
                       "detail": "second collection returns the first one's data"}
        rec["case"] = {"pair": name}
    rec["counters"]["pair_shared_subexpressions"] = len(shared)
    return rec


def run_canary():
    """agg({'a':..,'b':..}) vs the reversed dict (a fixed finding: name shared, other query's column order returned)"""
    import dask_expr as dx

    pdf = pd.DataFrame({"g": [1, 1, 2, 2], "a": [1, 2, 3, 4], "b": [1.0, 2.0, 3.0, 4.0]})
    d = dx.from_pandas(pdf, npartitions=2)
    q1 = d.groupby("g").agg({"a": "sum", "b": "mean"})
    q2 = d.groupby("g").agg({"b": "mean", "a": "sum"})
    rec = {"status": "ok", "counters": {"canary_runs": 1}}
    if q1.expr._name == q2.expr._name:
        got = list(q2.compute(scheduler="sync").columns)
        if got != ["b", "a"]:
            rec["status"] = "violation"
            rec["viol"] = {"oracle": "mutant_alias", "symptom": "mutant-shares-name", "kind": "dict-operand-order", "mech": "dict-operand-order", "got": got, "exp": ["b", "a"],
                           "src": ["d.groupby('g').agg({'a': 'sum', 'b': 'mean'}) vs agg({'b': 'mean', 'a': 'sum'})"], "ops": ["groupby_agg"]}
            rec["case"] = {"canary": "agg-dict-order"}
    return rec
