"""C02 - results equal the pandas meaning of the query for every partitioning.

Events: a query computes successfully and differs from pandas applied to the concatenated input (the
concatenation of the source collection's own partitions, i.e. in the dtypes dask-expr itself uses).
An exception is never a C02 violation (explicit refusal) - refusals are counted.
Workload: (i) exhaustive: every way of cutting n rows (n <= bound) into partitions, with empty partitions,
known and unknown divisions, for a battery of single-operator queries; two-input operators with independent
cut vectors; (ii) random generator programs over random layouts.
"""
import itertools
import warnings

import dask
import numpy as np
import pandas as pd

from vmon import layouts, progcase, programs, tables
from vmon.compare import compare
from vmon.execs import concat_parts, exec_ref
from vmon.util import derive_rng, shash

LEVEL = "exploration"
MANIFEST = {
    "text": "Layer (i), exhaustive: for tables of n rows (quick n<=5, thorough n<=7) ALL 2^(n-1) cut vectors plus empty-partition variants, with unknown and (where truthful) known divisions, are run on the real code for a battery of ~110 single-operator queries over every operator family (elementwise, reductions, groupby agg/apply/transform/cumulative, cumulative, shift/diff/fill, rolling windows 1..n incl. centered, value_counts/unique/drop_duplicates/nlargest, loc, sort/set_index); two-input operators (merge of every kind and key placement, concat on both axes, aligned binary ops, where/fillna/assign from another frame) get independent cut vectors for each operand. Layer (ii): random generator programs over random layouts. Every successful result is compared with pandas on the concatenated input under the operator's order/index flags; refusals are counted, never judged. The two-input battery includes the broadcast lowering of every join kind.",
    "note": "exhaustive=true refers to layer (i) within the stated bounds. pandas is the reference model; its input is the concatenation of the source's own partitions so that dask-expr's dtypes (pyarrow strings) are used. Tie-dependent operators are made tie-free or compared as multisets.",
    "technique": "runtime monitoring: exhaustive bounded enumeration of partitionings + differential oracle against pandas, with M-rule recording the lowering paths taken",
    "design_ref": "DESIGN.md section 4, C02",
}
RULE = ("layer (i): (operator, table, cut vector, divisions mode) enumerated exhaustively inside the bound; layer (ii): seeded random programs; "
        "non-trivial = computed successfully on a layout with >= 2 partitions; distinct by (operator, table, layout) / program hash")
ASSUMPTIONS = ["pandas semantics on the concatenated input", "float results compared with rtol 1e-9"]
CONFIG = {
    "quick": {"budget_s": 55, "nmax": 5, "n2": (4, 4), "programs": 700, "case_timeout_s": 120},
    "thorough": {"budget_s": 660, "nmax": 7, "n2": (5, 4), "programs": 5000, "case_timeout_s": 600},
}


def floors(tier):
    return {"cases": 300, "nontrivial": 3000, "layouts_compared": 6000, "two_input_compared": 1500, "random_programs_compared": 300,
            "set:operators_computed": 90, "layouts_with_empty_partition": 500, "known_division_layouts": 500}


# ---- battery -------------------------------------------------------------------------------------
# (name, fn, order, index[, requires])   requires: "sorted_unique_index" | "known" | None
NUMS = ["i", "f", "g"]


def _gb_apply(g):
    return g.max() - g.min()


BATTERY = [
    ("add_scalar", lambda d: d[NUMS] + 1, 1, 1), ("mul_cols", lambda d: d.f * d.g, 1, 1), ("cmp", lambda d: d.f > d.g, 1, 1),
    ("filter", lambda d: d[d.f > 0], 1, 1), ("filter_or", lambda d: d[(d.i > 1) | d.f.isna()], 1, 1), ("filter_bool", lambda d: d[~d.b], 1, 1),
    ("isna", lambda d: d.f.isna(), 1, 1), ("fillna", lambda d: d.f.fillna(0), 1, 1), ("fillna_dict", lambda d: d.fillna({"f": -1.0}), 1, 1),
    ("where", lambda d: d.g.where(d.i > 1), 1, 1), ("mask", lambda d: d[NUMS].mask(d[NUMS] > 2, 0), 1, 1), ("astype", lambda d: d.astype({"i": "float64"}), 1, 1),
    ("clip", lambda d: d[NUMS].clip(0, 2), 1, 1), ("round", lambda d: d.g.round(), 1, 1), ("abs", lambda d: d[NUMS].abs(), 1, 1), ("isin", lambda d: d.i.isin([1, 3]), 1, 1),
    ("between", lambda d: d.f.between(0, 3), 1, 1), ("assign", lambda d: d.assign(z=d.f + d.i, w=1), 1, 1), ("rename", lambda d: d.rename(columns={"f": "F"}), 1, 1),
    ("drop", lambda d: d.drop(columns=["s", "c"]), 1, 1), ("str_upper", lambda d: d.s.str.upper(), 1, 1), ("dt_dow", lambda d: d.t.dt.dayofweek, 1, 1),
    ("dropna", lambda d: d.dropna(), 1, 1), ("dropna_subset", lambda d: d.dropna(subset=["s"]), 1, 1), ("reset_index", lambda d: d.reset_index(), 1, 0),
    ("reset_index_drop", lambda d: d.reset_index(drop=True), 1, 0), ("to_frame", lambda d: d.f.to_frame(), 1, 1), ("minus_mean", lambda d: d.g - d.g.mean(), 1, 1),
    ("sum", lambda d: d[NUMS].sum(), 1, 1), ("mean", lambda d: d[NUMS].mean(), 1, 1), ("min", lambda d: d[NUMS].min(), 1, 1), ("max", lambda d: d[NUMS].max(), 1, 1),
    ("count", lambda d: d.count(), 1, 1), ("std", lambda d: d[NUMS].std(), 1, 1), ("var", lambda d: d[NUMS].var(), 1, 1), ("prod", lambda d: d[["i", "g"]].prod(), 1, 1),
    ("s_sum", lambda d: d.f.sum(), 1, 1), ("s_mean", lambda d: d.f.mean(), 1, 1), ("s_nunique", lambda d: d.s.nunique(), 1, 1), ("s_any", lambda d: d.b.any(), 1, 1),
    ("s_all", lambda d: d.b.all(), 1, 1), ("s_min_dt", lambda d: d.t.min(), 1, 1), ("s_idxmax", lambda d: d.u.idxmax(), 1, 1), ("s_size", lambda d: d.f.size, 1, 1),
    ("s_count", lambda d: d.s.count(), 1, 1), ("s_std", lambda d: d.g.std(), 1, 1), ("sum_split2", lambda d: d[NUMS].sum(split_every=2) if not isinstance(d, pd.DataFrame) else d[NUMS].sum(), 1, 1),
    ("gb_sum", lambda d: d.groupby("k").f.sum(), 0, 1), ("gb_mean", lambda d: d.groupby("k").g.mean(), 0, 1), ("gb_count", lambda d: d.groupby("k").f.count(), 0, 1),
    ("gb_size", lambda d: d.groupby("k").size(), 0, 1), ("gb_min", lambda d: d.groupby("k").f.min(), 0, 1), ("gb_max", lambda d: d.groupby("i").g.max(), 0, 1),
    ("gb_std", lambda d: d.groupby("k").g.std(), 0, 1), ("gb_var", lambda d: d.groupby("k").g.var(), 0, 1), ("gb_nunique", lambda d: d.groupby("k").s.nunique(), 0, 1),
    ("gb_first", lambda d: d.groupby("k").g.first(), 0, 1), ("gb_last", lambda d: d.groupby("k").g.last(), 0, 1), ("gb_median", lambda d: d.groupby("k").g.median(), 0, 1),
    ("gb_agg_dict", lambda d: d.groupby("k").agg({"f": "sum", "g": "max"}), 0, 1), ("gb_agg_list", lambda d: d.groupby("k").g.agg(["min", "mean"]), 0, 1),
    ("gb_two_keys", lambda d: d.groupby(["k", "b"]).g.sum(), 0, 1), ("gb_frame_sum", lambda d: d.groupby("k")[["f", "g"]].sum(), 0, 1),
    ("gb_split_out", lambda d: d.groupby("k").g.sum(split_out=2) if not isinstance(d, pd.DataFrame) else d.groupby("k").g.sum(), 0, 1),
    ("gb_cat", lambda d: d.groupby("c", observed=True).g.sum(), 0, 1), ("gb_str", lambda d: d.groupby("s").g.count(), 0, 1),
    ("gb_transform", lambda d: d.groupby("k").g.transform("sum"), 0, 1), ("gb_apply", lambda d: d.groupby("k").g.apply(_gb_apply), 0, 1),
    ("gb_cumsum", lambda d: d.groupby("k").g.cumsum(), 1, 1), ("gb_cumcount", lambda d: d.groupby("k").g.cumcount(), 1, 1), ("gb_shift", lambda d: d.groupby("k").g.shift(1), 0, 1, "sorted_unique_index"),
    ("cumsum", lambda d: d[NUMS].cumsum(), 1, 1), ("cumprod", lambda d: d[["i", "g"]].cumprod(), 1, 1), ("cummax", lambda d: d[NUMS].cummax(), 1, 1), ("cummin", lambda d: d[NUMS].cummin(), 1, 1),
    ("s_cumsum", lambda d: d.f.cumsum(), 1, 1), ("s_cummax", lambda d: d.g.cummax(), 1, 1), ("s_cumsum_int", lambda d: d.i.cumsum(), 1, 1),
    ("shift1", lambda d: d.f.shift(1), 1, 1), ("shift_m1", lambda d: d.f.shift(-1), 1, 1), ("shift2", lambda d: d[NUMS].shift(2), 1, 1), ("shift_m2", lambda d: d.g.shift(-2), 1, 1),
    ("diff1", lambda d: d.g.diff(1), 1, 1), ("diff_m1", lambda d: d.g.diff(-1), 1, 1), ("ffill", lambda d: d.f.ffill(), 1, 1), ("bfill", lambda d: d.f.bfill(), 1, 1),
    ("ffill_frame", lambda d: d[["f", "g"]].ffill(), 1, 1), ("bfill_frame", lambda d: d[["f", "g"]].bfill(), 1, 1),
    ("value_counts", lambda d: d.i.value_counts(), 0, 1), ("value_counts_str", lambda d: d.s.value_counts(), 0, 1), ("unique", lambda d: pd.Series(d.i.unique(), name="i") if isinstance(d, pd.DataFrame) else d.i.unique(), 0, 0),
    ("drop_duplicates", lambda d: d[["i", "b"]].drop_duplicates(), 0, 0), ("s_drop_duplicates", lambda d: d.k.drop_duplicates(), 0, 0),
    ("nlargest", lambda d: d.nlargest(2, ["g", "u"]), 1, 1), ("nsmallest", lambda d: d.nsmallest(3, "u"), 1, 1), ("s_nlargest", lambda d: d.u.nlargest(2), 1, 1),
    ("sort_values_u", lambda d: d.sort_values("u"), 1, 1), ("sort_values_desc", lambda d: d.sort_values("u", ascending=False), 1, 1), ("sort_values_2", lambda d: d.sort_values(["k", "u"]), 1, 1),
    ("sort_values_ties", lambda d: d.sort_values("k"), 0, 1), ("sort_values_na", lambda d: d.sort_values(["f", "u"]), 1, 1), ("set_index_u", lambda d: d.set_index("u").sort_index(kind="stable") if isinstance(d, pd.DataFrame) else d.set_index("u"), 1, 1),
    ("set_index_k", lambda d: d.set_index("k").sort_index(kind="stable") if isinstance(d, pd.DataFrame) else d.set_index("k"), 0, 1),
    ("set_index_dt", lambda d: d.set_index("t").sort_index(kind="stable") if isinstance(d, pd.DataFrame) else d.set_index("t"), 0, 1),
    ("index_max", lambda d: d.index.max(), 1, 1), ("index_series", lambda d: d.index.to_series(), 1, 1),
    ("head_all", lambda d: d.head(3) if isinstance(d, pd.DataFrame) else d.head(3, npartitions=-1, compute=False), 1, 1),
    ("memory_free_len", lambda d: d.g.count() + d.f.count(), 1, 1),
]
for _w in (1, 2, 3, 4, 5, 6, 7):
    BATTERY.append((f"rolling_sum_{_w}", (lambda w: lambda d: d.g.rolling(w).sum())(_w), 1, 1, "known"))
    BATTERY.append((f"rolling_mean_mp_{_w}", (lambda w: lambda d: d[["f", "g"]].rolling(w, min_periods=1).mean())(_w), 1, 1, "known"))
for _w in (3, 5):
    BATTERY.append((f"rolling_center_{_w}", (lambda w: lambda d: d.g.rolling(w, center=True).max())(_w), 1, 1, "known"))
BATTERY += [
    ("loc_slice", lambda d: d.loc[2:6], 1, 1, "known"), ("loc_list", lambda d: d.loc[[0, 4]], 1, 1, "known"), ("loc_open", lambda d: d.loc[4:], 1, 1, "known"),
    ("loc_bool", lambda d: d.loc[d.i > 1], 1, 1),
]
BAT = {b[0]: b for b in BATTERY}

# two-input battery: fn(a, b, lib)
TWO = [
    ("merge_inner", lambda a, b, lib: a.merge(b, on="k"), 0, 0), ("merge_left", lambda a, b, lib: a.merge(b, on="k", how="left"), 0, 0),
    ("merge_right", lambda a, b, lib: a.merge(b, on="k", how="right"), 0, 0), ("merge_outer", lambda a, b, lib: a.merge(b, on="k", how="outer"), 0, 0),
    ("merge_lr_on", lambda a, b, lib: a.merge(b.rename(columns={"k": "kk"}), left_on="k", right_on="kk"), 0, 0),
    ("merge_two_keys", lambda a, b, lib: a.merge(b, on=["k", "b"]), 0, 0),
    ("merge_index", lambda a, b, lib: a[["f"]].merge(b[["g"]], left_index=True, right_index=True, how="outer"), 0, 1),
    ("merge_index_inner", lambda a, b, lib: a[["f"]].merge(b[["g"]], left_index=True, right_index=True), 0, 1),
    ("merge_left_index_right_on", lambda a, b, lib: a[["f", "u"]].merge(b[["g", "rid"]], left_on="u", right_index=True, how="left"), 0, 0),
    ("merge_semi", lambda a, b, lib: (a.merge(b[["k"]].drop_duplicates(), on="k") if lib == "pd" else a.merge(b, on="k", how="leftsemi")), 0, 0),
    ("merge_float_int", lambda a, b, lib: a.assign(kf=a.k.astype("float64")).merge(b, left_on="kf", right_on="k", how="inner"), 0, 0),
    ("concat0", lambda a, b, lib: _concat(lib, [a, b]), 0, 1), ("concat0_inner", lambda a, b, lib: _concat(lib, [a[["f", "g", "rid"]], b[["g", "rid", "k"]]], join="inner"), 0, 1),
    ("concat1", lambda a, b, lib: _concat(lib, [a[["f"]], b[["g"]]], axis=1), 0, 1, "known"),
    ("concat0_cat_extra", lambda a, b, lib: _concat(lib, [a[["i", "c"]], b[["i", "k"]]]), 0, 1),
    ("concat0_extra", lambda a, b, lib: _concat(lib, [a[["i", "s"]], b[["i", "k"]]]), 0, 1),
    ("add_aligned", lambda a, b, lib: a.f + b.g, 0, 1, "known"), ("sub_frame", lambda a, b, lib: a[["f", "g"]] - b[["g", "i"]], 0, 1, "known"),
    ("where_other", lambda a, b, lib: a.g.where(b.g > 1, -1.0), 0, 1, "known_same_index"), ("fillna_series", lambda a, b, lib: a.f.fillna(b.g), 0, 1, "known_same_index"),
    ("assign_other", lambda a, b, lib: a.assign(y=b.g), 0, 1, "known"), ("filter_other", lambda a, b, lib: a[b.g > 1], 0, 1, "known_same_index"),
    ("cmp_aligned", lambda a, b, lib: a.g > b.g, 0, 1, "known_same_index"),
]


def _bcast_merge(how):
    def f(a, b, lib):
        if lib == "pd":
            return a.merge(b[["k"]].drop_duplicates(), on="k") if how == "leftsemi" else a.merge(b, on="k", how=how)
        return a.merge(b, on="k", how=how, broadcast=True, shuffle_method="tasks")
    return f


# the broadcast lowering of every join kind (needs both operands in > 1 partition: the cut vectors provide that)
TWO += [(f"merge_bcast_{_how}", _bcast_merge(_how), 0, 0) for _how in ("inner", "left", "right", "outer", "leftsemi")]
TWOD = {t[0]: t for t in TWO}


def _concat(lib, frames, **kw):
    if lib == "pd":
        return pd.concat(frames, **kw)
    import dask_expr as dx

    return dx.concat(frames, **kw)


def all_cuts(n):
    """all 2^(n-1) cut vectors of n rows"""
    out = []
    for r in range(n):
        for c in itertools.combinations(range(1, n), r):
            out.append(list(c))
    return out


def empty_variants(n, rng, k=3):
    """cut vectors with repeated cut points (= empty partitions), incl. leading and trailing empties"""
    out = [[0, n // 2], [n // 2, n], [n // 2, n // 2]]
    for _ in range(k):
        c = sorted(rng.randrange(0, n + 1) for _ in range(rng.randrange(2, 5)))
        out.append(c)
    return out


def small_table(n, seed, index="range"):
    t = tables.make_table({"seed": seed, "n": n, "index": index})
    return t


def cases(tier, seed):
    c = CONFIG[tier]
    # canaries for listed findings
    yield {"kind": "one", "op": "cumsum", "n": 6, "tseed": 3, "index": "range", "canary": "cumsum-all-nan-partition"}
    yield {"kind": "two", "op": "assign_other", "nl": 4, "nr": 4, "tseed": 1, "canary": "assign-differently-ranged"}
    yield {"kind": "one", "op": "gb_shift", "n": 4, "tseed": 4, "index": "int_dup", "canary": "gb-shift-duplicated-index"}
    for n in range(4, c["nmax"] + 1):
        for name in BAT:
            for j, index in enumerate(["range", "int_dup"] if n <= 5 else ["range"]):
                yield {"kind": "one", "op": name, "n": n, "tseed": seed * 7 + n, "index": index}
    nl, nr = c["n2"]
    for name in TWOD:
        for (a, b_) in [(nl, nr), (nr, nl)] if nl != nr else [(nl, nr)]:
            yield {"kind": "two", "op": name, "nl": a, "nr": b_, "tseed": seed * 11 + 1}
    for i in range(c["programs"]):
        yield {"kind": "prog", "gen": [seed, i], "profile": ["default", "structure", "blockwise", "default", "filter", "projection"][i % 6]}


def run_case(case):
    return {"one": run_one, "two": run_two, "prog": run_prog}[case["kind"]](case)


def _src(df, cuts, mode):
    lay = {"kind": "cuts", "cuts": cuts, "via": "from_map", "divisions": "known" if mode == "known" else "unknown"}
    if mode == "known":
        parts = layouts.cut_parts(df, cuts)
        if layouts.known_divisions(parts) is None:
            return None
    return layouts.build(df, lay)


def nan_partition_column(df, cuts):
    parts = layouts.cut_parts(df, cuts)
    for p in parts[:-1]:
        if len(p) and any(p[c].isna().all() for c in ("f",) if c in p.columns):
            return True
    return False


def run_one(case):
    name, fn, order, index = BAT[case["op"]][:4]
    req = BAT[case["op"]][4] if len(BAT[case["op"]]) > 4 else None
    n = case["n"]
    rng = derive_rng("C02", case["tseed"], name, n)
    df = small_table(n, case["tseed"], case.get("index", "range"))
    if case.get("canary") == "cumsum-all-nan-partition":
        df = df.copy()
        df.loc[df.index[2:4], "f"] = np.nan
    counters, sets, nt = {}, {"operators_computed": []}, []
    viol = None

    def bump(k, v=1):
        counters[k] = counters.get(k, 0) + v

    cutlist = [(c, False) for c in all_cuts(n)] + [(c, True) for c in empty_variants(n, rng)]
    sorted_unique = df.index.is_monotonic_increasing and df.index.is_unique
    for cuts, has_empty in cutlist:
        for mode in ("unknown", "known"):
            if mode == "known" and (has_empty or not df.index.is_monotonic_increasing):
                continue
            if req in ("known",) and mode != "known":
                continue
            if req and req.startswith("sorted") and not sorted_unique and not case.get("canary"):
                continue
            try:
                src = _src(df, cuts, mode)
            except Exception:
                bump("source_build_refused")
                continue
            if src is None:
                continue
            try:
                with warnings.catch_warnings():
                    warnings.simplefilter("ignore")
                    base = concat_parts(exec_ref(src.expr))
                    exp = fn(base)
            except Exception:
                bump("pandas_refused")
                continue
            try:
                with warnings.catch_warnings():
                    warnings.simplefilter("ignore")
                    q = fn(src)
                    got = q.compute(scheduler="sync") if hasattr(q, "compute") else q
            except Exception as ex:
                bump("refusals")
                sets.setdefault("refusal_kinds", []).append(f"{name}:{type(ex).__name__}:{str(ex)[:40]}")
                continue
            bump("layouts_compared")
            if has_empty:
                bump("layouts_with_empty_partition")
            if mode == "known":
                bump("known_division_layouts")
            if len(cuts) >= 1:
                nt.append(f"{name}|{n}|{case['tseed']}|{cuts}|{mode}")
            d = compare(got, exp, order=bool(order), index=bool(index), dtypes=False)
            if d and not viol:
                viol = dict(d, oracle="pandas", op=name, cuts=cuts, divisions=mode, n=n, ops=[name], index_sorted_unique=bool(sorted_unique),
                            all_nan_partition_column=nan_partition_column(df, cuts), has_empty_partition=has_empty,
                            src=[f"table n={n} seed={case['tseed']} index={case.get('index')}; cuts={cuts} divisions={mode}; query={name}"])
                viol_case = dict(case, only=[cuts, mode])
    if counters.get("layouts_compared"):
        sets["operators_computed"].append(name)
    rec = {"status": "violation" if viol else "ok", "counters": counters, "sets": sets, "nt": nt}
    if viol:
        rec["viol"] = viol
        rec["case"] = viol_case
    if name in ("rolling_sum_3", "gb_sum") and n == 5:
        rec["sample"] = {"operator": name, "n": n, "cut_vectors": len(cutlist), "example_cuts": [c for c, _ in cutlist[:6]], "modes": ["unknown", "known"]}
    return rec


def run_two(case):
    name, fn, order, index = TWOD[case["op"]][:4]
    req = TWOD[case["op"]][4] if len(TWOD[case["op"]]) > 4 else None
    nl, nr = case["nl"], case["nr"]
    rng = derive_rng("C02two", case["tseed"], name)
    a = small_table(nl, case["tseed"], "range")
    b = small_table(nr, case["tseed"] + 1, "range")
    b = b.assign(rid=b.rid + 100)
    if req == "known" and not case.get("canary"):
        # differently ranged operands: b's index shifted so the ranges overlap partially
        b.index = b.index + 1
    if case.get("canary"):
        b.index = b.index + 2
    counters, sets, nt = {}, {"operators_computed": []}, []
    viol = None

    def bump(k, v=1):
        counters[k] = counters.get(k, 0) + v

    for ca in all_cuts(nl):
        for cb in all_cuts(nr):
            for mode in (("known",) if req else ("unknown", "known")):
                try:
                    sa, sb = _src(a, ca, mode), _src(b, cb, mode)
                    if sa is None or sb is None:
                        continue
                    with warnings.catch_warnings():
                        warnings.simplefilter("ignore")
                        exp = fn(concat_parts(exec_ref(sa.expr)), concat_parts(exec_ref(sb.expr)), "pd")
                except Exception:
                    bump("pandas_refused")
                    continue
                try:
                    with warnings.catch_warnings():
                        warnings.simplefilter("ignore")
                        got = fn(sa, sb, "dx").compute(scheduler="sync")
                except Exception as ex:
                    bump("refusals")
                    sets.setdefault("refusal_kinds", []).append(f"{name}:{type(ex).__name__}:{str(ex)[:40]}")
                    continue
                bump("two_input_compared")
                bump("layouts_compared")
                if ca or cb:
                    nt.append(f"{name}|{ca}|{cb}|{mode}")
                d = compare(got, exp, order=bool(order), index=bool(index), dtypes=False)
                if d and not viol:
                    viol = dict(d, oracle="pandas", op=name, cuts=[ca, cb], divisions=mode, ops=[name], operand_ranges_differ=not a.index.equals(b.index),
                                src=[f"two-input {name}: left n={nl} cuts={ca}; right n={nr} cuts={cb}; divisions={mode}; right index = left index + {int(b.index[0] - a.index[0])}"])
    if counters.get("two_input_compared"):
        sets["operators_computed"].append(name)
    rec = {"status": "violation" if viol else "ok", "counters": counters, "sets": sets, "nt": nt}
    if viol:
        rec["viol"] = viol
    if name == "merge_left":
        rec["sample"] = {"operator": name, "left_cuts": len(all_cuts(nl)), "right_cuts": len(all_cuts(nr)), "independent": True}
    return rec


def run_prog(case):
    prog = case["prog"] if "prog" in case else progcase.gen_prog(("C02",) + tuple(case["gen"]), profile=case.get("profile", "default"),
                                                                 layout_kw={"allow_unknown": True, "allow_empty": True})
    b = progcase.Built(prog).build_sources()
    try:
        b.eval_pd()
    except Exception:
        return {"status": "undecided", "counters": {"pandas_refused": 1}}
    try:
        b.eval_dx()
        method = derive_rng("C02p", shash(prog)).choice(["tasks", "disk"])
        with dask.config.set({"dataframe.shuffle.method": method}):
            got = b.out_dx.compute(scheduler="sync")
    except Exception as ex:
        return {"status": "refused", "counters": {"refusals": 1}, "sets": {"refusal_kinds": [f"prog:{type(ex).__name__}:{str(ex)[:40]}"]}}
    v = b.out_pd
    from vmon.checks.c17 import _has_nonstring_object_column

    if _has_nonstring_object_column(v.pd):
        # dask treats every object column as strings (convert-string), by documented design; an object column holding bools or
        # numbers (outer concat of frames with and without the column) is stringified
        return {"status": "undecided", "counters": {"nonstring_object_column": 1}}
    d = compare(got, v.pd, order=v.order, index=v.index, dtypes=False)
    rec = {"status": "ok", "counters": {"random_programs_compared": 1}, "nt": [shash(prog)] if any(c.npartitions > 1 for c in b.src_dx) else []}
    if d:
        rec["status"] = "violation"
        rec["viol"] = dict(d, oracle="pandas_program", ops=programs.program_ops(prog), src=programs.program_source(prog), shuffle=method,
                           classes=progcase.plan_classes(b.out_dx.expr), first_diff_got_nan=("~na" in str(d.get("got", "")) and "~na" not in str(d.get("exp", ""))),
                           missing_labels_only=(d.get("symptom") == "column-labels" and isinstance(d.get("got"), list) and [c for c in d["exp"] if c in d["got"]] == d["got"] and len(d["got"]) < len(d["exp"])),
                           has_categorical=any(isinstance(getattr(v_.pd, "dtypes", None), pd.Series) and any(isinstance(t_, pd.CategoricalDtype) for t_ in v_.pd.dtypes) for v_ in b.pd_vals))
        rec["case"] = {"kind": "prog", "prog": prog}
    if case.get("gen") and case["gen"][1] == 2:
        rec["sample"] = {"program": programs.program_source(prog)}
    return rec
