"""C11 - selecting partitions or leading/trailing rows commutes with the computation.

Events: partitions of x.partitions[P] / get_partition / to_delayed(); rows of head(n, npartitions=k) / tail(n);
exceptions raised by a selection whose full computation succeeds.
Oracle: the per-partition outputs of the fully computed x.
"""
import functools
import os

import dask
import numpy as np
import pandas as pd

from vmon import monitors as M
from vmon import progcase
from vmon.compare import compare
from vmon.execs import concat_parts, exec_ref
from vmon.util import derive_rng

LEVEL = "exploration"
MANIFEST = {
    "text": "Cross product of 14 source kinds (from_pandas sorted/unsorted/chunksize, from_array, from_map plain and projectable, from_delayed, persisted graph, legacy round trip, csv, parquet with both readers, timeseries) x 16 operation chains the selection is pushed through (elementwise, filters, broadcast scalar/series operands, single-partition and broadcast joins, shuffles, set_index/sort, cumulative, map_partitions) x partition index sets (single, slice, reordered, repeated, all, last) x head/tail (n, npartitions) on the real code, before and after optimize(); every selected partition is compared exactly with the corresponding partition of the fully computed collection, and a selection that raises where the full computation succeeds is a violation. Sources include a 12-partition frame (combine levels), chains include na_position='first' sorts and map_partitions(partition_info), selections numpy integers; len / Lengths / size answered from metadata are checked for every selection, a Series of it and a second same-size selection.",
    "note": "Optimized x.partitions[P] is judged per partition only when the optimized plan holds no IO-fusion node (FusedIO/FusedParquetIO merge files by design); otherwise by ordered concatenation. When the selected partitions hold fewer than n rows only the prefix property of head/tail is required. to_delayed() is judged against x.optimize().",
    "technique": "runtime monitoring: differential execution selection-vs-full, partition by partition, with M-rule recording the push-down rules that fired",
    "design_ref": "DESIGN.md section 4, C11",
}
RULE = ("(source kind x chain x selection) cells sampled by the seed from the full cross product (quick) / enumerated (thorough); "
        "non-trivial = the optimizer pushed the selection through at least one operation or into the source (plan of the optimized selection contains no Partitions/Head/Tail node above a non-source, or a rule fired); distinct by cell")
ASSUMPTIONS = ["partition order = key order (name, i)", "rows inside disk-shuffled partitions are unordered"]
CONFIG = {
    "quick": {"budget_s": 50, "cells": 1600, "case_timeout_s": 60},
    "thorough": {"budget_s": 540, "cells": 30000, "case_timeout_s": 120},
}


def floors(tier):
    return {"cases": 500, "nontrivial": 300, "partition_selections_compared": 400, "head_tail_compared": 500, "to_delayed_compared": 60,
            "set:sources": 12, "set:chains": 14, "pushdown_rule_firings": 500}


N = 36


def base_table():
    r = np.random.RandomState(11)
    return pd.DataFrame({"a": r.randint(0, 6, N), "b": r.randint(0, 20, N) / 2.0, "c": r.permutation(N), "s": pd.array(r.choice(["x", "y", "z"], N), dtype="str"), "rid": np.arange(N)},
                        index=pd.Index(np.arange(N) * 3, name="ix"))


def _part(i, parts=None):
    return parts[i]


def _part_cols(i, columns=None, parts=None):
    p = parts[i]
    return p[columns] if columns is not None else p


def make_source(kind, scratch):
    import dask_expr as dx

    pdf = base_table()
    if kind == "from_pandas":
        return dx.from_pandas(pdf, npartitions=6)
    if kind == "from_pandas_many":
        return dx.from_pandas(pdf, npartitions=12)  # more partitions than the default tree-reduction fan-in (combine levels exist)
    if kind == "from_pandas_unsorted":
        return dx.from_pandas(pdf.iloc[np.random.RandomState(3).permutation(N)], npartitions=5, sort=False)
    if kind == "from_pandas_chunksize":
        return dx.from_pandas(pdf, chunksize=7)
    if kind == "from_pandas_1":
        return dx.from_pandas(pdf, npartitions=1)
    if kind == "from_array":
        return dx.from_array(pdf[["a", "b", "c", "rid"]].to_numpy(dtype="float64"), chunksize=8, columns=["a", "b", "c", "rid"])
    parts = [pdf.iloc[i: i + 6] for i in range(0, N, 6)]
    if kind == "from_map":
        return dx.from_map(functools.partial(_part, parts=parts), list(range(len(parts))), meta=pdf.iloc[:0])
    if kind == "from_map_projectable":
        return dx.from_map(functools.partial(_part_cols, parts=parts), list(range(len(parts))), meta=pdf.iloc[:0], enforce_metadata=False)
    if kind == "from_map_divisions":
        divs = tuple(p.index[0] for p in parts) + (parts[-1].index[-1],)
        return dx.from_map(functools.partial(_part, parts=parts), list(range(len(parts))), meta=pdf.iloc[:0], divisions=divs)
    if kind == "from_delayed":
        return dx.from_delayed([dask.delayed(p) for p in parts], meta=pdf.iloc[:0])
    if kind == "persisted":
        return (dx.from_pandas(pdf, npartitions=6) + 0 if False else dx.from_pandas(pdf, npartitions=6)).persist(scheduler="sync")
    if kind == "legacy":
        return dx.from_legacy_dataframe(dx.from_pandas(pdf, npartitions=6).to_legacy_dataframe())
    if kind == "csv":
        path = os.path.join(scratch, f"c11-csv-{os.getpid()}")
        if not os.path.exists(path):
            os.makedirs(path)
            for i, p in enumerate(parts):
                p.to_csv(os.path.join(path, f"p{i}.csv"), index=False)
        return dx.read_csv(os.path.join(path, "p*.csv"))
    if kind in ("parquet_fsspec", "parquet_arrow"):
        path = os.path.join(scratch, f"c11-pq-{os.getpid()}")
        if not os.path.exists(path):
            dx.from_pandas(pdf, npartitions=6).to_parquet(path)
        return dx.read_parquet(path, filesystem=kind.split("_")[1], calculate_divisions=True)
    if kind == "timeseries":
        from dask_expr.datasets import timeseries

        t = timeseries(start="2000-01-01", end="2000-01-07", freq="4h", partition_freq="1d", dtypes={"a": int, "b": float, "c": int}, seed=1)
        return t.assign(rid=t.c * 0 + 1, a=t.a % 6)
    raise ValueError(kind)


SOURCES = ["from_pandas", "from_pandas_many", "from_pandas_unsorted", "from_pandas_chunksize", "from_pandas_1", "from_array", "from_map", "from_map_projectable", "from_map_divisions",
           "from_delayed", "persisted", "legacy", "csv", "parquet_fsspec", "parquet_arrow", "timeseries"]


def _small(x):
    import dask_expr as dx

    return dx.from_pandas(pd.DataFrame({"a": np.arange(6), "w": np.arange(6) * 10.0}), npartitions=1)


def _small2(x):
    import dask_expr as dx

    return dx.from_pandas(pd.DataFrame({"a": np.arange(6), "w": np.arange(6) * 10.0}), npartitions=2)


def _mp_info(p, partition_info=None):
    return p.assign(pnum=-1 if partition_info is None else partition_info["number"])


def _mp(p):
    return p.assign(mp=p["a"] * 2)


CHAINS = {
    "identity": lambda x: x,
    "add1": lambda x: x[["a", "b", "c"]] + 1,
    "filter": lambda x: x[x.a > 1],
    "bcast_scalar": lambda x: x.assign(z=x.b - x.b.mean()),
    "bcast_scalar_series": lambda x: (x.b + x.b.sum()).to_frame(),
    "bcast_max": lambda x: x.assign(z=x.c.max()),
    "project": lambda x: x[["b", "a"]],
    "series": lambda x: x.b * 2,
    "rename_assign": lambda x: x.rename(columns={"b": "B"}).assign(q=1),
    "merge_single": lambda x: x.merge(_small(x), on="a", how="left"),
    "merge_bcast": lambda x: x.merge(_small2(x), on="a", how="inner", broadcast=True),
    "shuffle": lambda x: x.shuffle("a"),
    "shuffle_np": lambda x: x.shuffle("a", npartitions=4),
    "shuffle_staged": lambda x: x.shuffle("a", max_branch=2),            # staged task shuffle (selection of > max_branch outputs)
    "shuffle_staged_more": lambda x: x.shuffle("a", npartitions=x.npartitions + 2, max_branch=2),
    "set_index": lambda x: x.set_index("c"),
    "sort_values": lambda x: x.sort_values("c"),
    "sort_values_desc": lambda x: x.sort_values("c", ascending=False),
    "sort_values_na_first": lambda x: x.assign(bn=x.b.where(x.b > 2)).sort_values(["bn", "c"], na_position="first"),
    "map_partitions_info": lambda x: x.map_partitions(_mp_info, meta=_mp_info(x._meta)),
    "cumsum": lambda x: x[["a", "b"]].cumsum(),
    "map_partitions": lambda x: x.map_partitions(_mp),
    "fillna_astype": lambda x: x[["a", "b"]].astype({"a": "float64"}).fillna(0),
    "two_filters": lambda x: x[x.a > 0][["a", "b", "c"]][lambda d: d.b < 9],
}
SELECTIONS = ["single0", "single_mid", "single_np_int", "last", "slice", "reordered", "repeated", "all", "get_partition", "to_delayed",
              "head1", "head3", "head7", "head100", "head7_k2", "head7_kall", "head3_k2", "tail1", "tail3", "tail100"]


def cases(tier, seed):
    cells = [(s, c, sel) for s in SOURCES for c in CHAINS for sel in SELECTIONS]
    rng = derive_rng("C11cells", seed)
    rng.shuffle(cells)
    # canaries for fixed findings stay in the rotation: (from_array, identity, head3), (from_pandas, add1, head7_k2), (from_pandas, bcast_scalar_series, head3)
    first = [("from_array", "identity", "head3"), ("from_pandas", "add1", "head7_k2"), ("from_pandas", "bcast_scalar_series", "head3"), ("from_pandas", "shuffle", "slice"),
             # head / tail of sorted frames over more partitions than one tree-reduction level takes
             ("from_pandas_many", "sort_values", "tail3"), ("from_pandas_many", "set_index", "tail3"), ("from_pandas_many", "sort_values", "head3"),
             ("from_pandas_many", "set_index", "head7"), ("from_pandas_many", "sort_values_desc", "tail1"), ("from_pandas_many", "sort_values_na_first", "tail3"),
             ("from_pandas_many", "sort_values_na_first", "head3"), ("from_pandas_many", "cumsum", "tail3"), ("from_pandas_many", "bcast_scalar", "tail1")]
    for s, c, sel in first + cells[: CONFIG[tier]["cells"]]:
        yield {"source": s, "chain": c, "sel": sel, "seed": seed}


def setup_worker(tier, seed):
    M.RULES.install()


def pick(sel, n):
    if sel == "single0":
        return [0]
    if sel == "single_mid":
        return [n // 2]
    if sel == "single_np_int":
        return [n // 2]
    if sel == "last":
        return [n - 1]
    if sel == "slice":
        return list(range(1, n - 1)) if n >= 3 else [0]
    if sel == "reordered":
        return list(reversed(range(n)))[: max(1, n - 1)]
    if sel == "repeated":
        return [0, n - 1, 0] if n > 1 else [0, 0]
    if sel == "all":
        return list(range(n))
    return None


def run_case(case):
    scratch = os.environ.get("VMON_SCRATCH", "/tmp")
    counters, sets = {}, {"sources": [case["source"]], "chains": [case["chain"]]}
    rec = {"status": "ok", "counters": counters, "sets": sets, "nt": []}

    def bump(k, v=1):
        counters[k] = counters.get(k, 0) + v

    rng = derive_rng("C11", case["seed"], case["source"], case["chain"], case["sel"])
    method = "disk" if (case["chain"] in ("shuffle", "shuffle_np", "set_index", "sort_values", "sort_values_desc", "sort_values_na_first")) and rng.random() < 0.3 else "tasks"
    with dask.config.set({"dataframe.shuffle.method": method}):
        if case["source"] == "timeseries" and case["chain"] in ("set_index", "sort_values", "sort_values_desc", "sort_values_na_first"):
            return {"status": "undecided", "counters": {"skipped_tied_sort_keys": 1}}  # generated key column has ties: order among ties undefined
        try:
            src = make_source(case["source"], scratch)
            if case["chain"] in ("bcast_max", "set_index", "sort_values", "rename_assign", "merge_single", "merge_bcast", "bcast_scalar", "filter", "two_filters", "shuffle", "shuffle_np", "map_partitions", "fillna_astype", "cumsum", "project", "add1", "series", "bcast_scalar_series") and case["source"] == "from_array":
                pass
            x = CHAINS[case["chain"]](src)
        except Exception:
            return {"status": "refused", "counters": {"build_refused": 1}}
        try:
            with M.Guard():
                full = exec_ref(x.expr)
        except Exception:
            return {"status": "undecided", "counters": {"full_raises": 1}}
        n = len(full)
        if n != x.npartitions:
            return {"status": "undecided", "counters": {"npartitions_untruthful_c06": 1}}
        unordered = method == "disk"
        sel = case["sel"]
        viol = None

        def cmp_parts(got, exp, where):
            if len(got) != len(exp):
                return {"oracle": where, "symptom": "partition-count", "got": len(got), "exp": len(exp)}
            for i, (a, b_) in enumerate(zip(got, exp)):
                d = compare(a, b_, order=not unordered, index=True, exact=True, dtypes=True)
                if d:
                    return dict(d, oracle=where, part=i)
            return None

        def cmp_concat(got, exp, where):
            d = compare(concat_parts(got), concat_parts(exp), order=not unordered, index=True, exact=True, dtypes=False)
            return dict(d, oracle=where) if d else None

        try:
            if sel in ("single0", "single_mid", "single_np_int", "last", "slice", "reordered", "repeated", "all", "get_partition"):
                if sel == "get_partition":
                    i = rng.randrange(n)
                    P = [i]
                    y = x.get_partition(i)
                else:
                    P = pick(sel, n)
                    y = x.partitions[np.int64(P[0])] if sel == "single_np_int" else x.partitions[P]
                if (sel in ("reordered", "repeated") and case["chain"] in ("cumsum",)) or (sel == "repeated" and case["chain"] in ("set_index", "sort_values", "sort_values_desc", "sort_values_na_first")):
                    # outputs with sorted (monotone) divisions: a repeated selection cannot keep them monotone; the optimized plan
                    # then keeps each selected partition once (observed, not judged)
                    return {"status": "undecided", "counters": {"skipped_monotone_required": 1}}
                exp = [full[i] for i in P]
                with M.Guard():
                    got_u = exec_ref(y.expr)
                viol = cmp_parts(got_u, exp, "partitions_unoptimized")
                if viol is None:
                    M.RULES.reset()
                    yo = y.optimize()
                    ev = M.RULES.snapshot()
                    pd_fire = sum(v for k, v in ev.items() if k[1] in ("Partitions", "PartitionsFiltered") or k[3] == "Partitions")
                    bump("pushdown_rule_firings", pd_fire)
                    with M.Guard():
                        got_o = exec_ref(yo.expr)
                    classes = progcase.plan_classes(yo.expr)
                    if {"FusedIO", "FusedParquetIO"} & set(classes):
                        bump("io_fusion_two_level_oracle")
                        viol = cmp_concat(got_o, exp, "partitions_optimized_concat")
                    else:
                        viol = cmp_parts(got_o, exp, "partitions_optimized")
                    bump("partition_selections_compared")
                    if viol is None and sel != "repeated":
                        # row counts answered without reading data (len / Lengths / size) of the selection, of a Series taken from it,
                        # and of a second, different selection of the same size on the same collection (stale per-source caches)
                        from vmon.planaudit import count_checks

                        P2 = [(i + 1) % n for i in P]
                        for tagc, yy, pp in (("sel", y, P), ("sel2", x.partitions[P2] if sel != "get_partition" else x.get_partition(P2[0]), P2)):
                            expc = [full[i] for i in pp]
                            viol = count_checks(yy, expc, bump)
                            if viol is None and isinstance(yy._meta, pd.DataFrame) and yy._meta.shape[1]:
                                c0 = yy._meta.columns[0]
                                viol = count_checks(yy[c0], [e_[c0] for e_ in expc], bump)
                            if viol is not None:
                                viol["which"] = tagc
                                break
                        bump("selection_count_oracles")
                    if pd_fire:
                        rec["nt"].append(f"{case['source']}|{case['chain']}|{sel}")
            elif sel == "to_delayed":
                xo = x.optimize()
                with M.Guard():
                    exp = exec_ref(xo.expr)
                    got = list(dask.compute(*x.to_delayed(), scheduler="sync"))
                bump("to_delayed_compared")
                viol = cmp_parts(got, exp, "to_delayed")
                rec["nt"].append(f"{case['source']}|{case['chain']}|{sel}")
            else:
                kind = "head" if sel.startswith("head") else "tail"
                nrows = int("".join(ch for ch in sel.split("_")[0] if ch.isdigit()))
                k = 1
                if "_k2" in sel:
                    k = 2
                if "_kall" in sel:
                    k = -1
                if kind == "head":
                    if k > n:
                        return {"status": "undecided", "counters": {"k_exceeds_npartitions": 1}}
                    avail = concat_parts(full[: (n if k == -1 else k)])
                    exp = avail.head(nrows) if hasattr(avail, "head") else avail[:nrows]
                    y = x.head(nrows, npartitions=k, compute=False)
                else:
                    avail = full[-1]
                    exp = avail.tail(nrows) if hasattr(avail, "tail") else avail[-nrows:]
                    y = x.tail(nrows, compute=False)
                enough = len(avail) >= nrows
                M.RULES.reset()
                for tag, coll in (("unoptimized", y), ("optimized", None)):
                    if coll is None:
                        coll = y.optimize()
                        ev = M.RULES.snapshot()
                        hf = sum(v for k_, v in ev.items() if k_[1] in ("Head", "Tail") or k_[3] in ("Head", "Tail"))
                        bump("pushdown_rule_firings", hf)
                        if hf:
                            rec["nt"].append(f"{case['source']}|{case['chain']}|{sel}")
                    with M.Guard():
                        got = concat_parts(exec_ref(coll.expr))
                    if unordered:
                        continue  # which rows lead a disk-shuffled partition is undefined
                    if enough:
                        d = compare(got, exp, order=True, index=True, exact=True, dtypes=False)
                    else:
                        # fewer than n rows available in the selected partitions (dask warns): prefix/suffix property only
                        g2 = got.head(len(exp)) if kind == "head" else got.tail(len(exp))
                        d = compare(g2, exp, order=True, index=True, exact=True, dtypes=False)
                        if d is None and len(got) > nrows:
                            d = {"symptom": "more-rows", "got": len(got), "exp": f"<= {nrows}"}
                        bump("short_partition_prefix_only")
                    if d:
                        viol = dict(d, oracle=f"{kind}_{tag}")
                        break
                bump("head_tail_compared")
        except Exception as ex:
            viol = dict(progcase.exc_info(ex), oracle="selection_runs")
    if viol:
        viol.update({"source": case["source"], "chain": case["chain"], "sel": sel, "shuffle": method, "ops": [case["source"], case["chain"], sel],
                     "src": [f"x = {case['chain']}({case['source']}); selection = {sel}"]})
        rec["status"] = "violation"
        rec["viol"] = viol
        rec["case"] = dict(case)
    if (case["source"], case["chain"], case["sel"]) == ("from_pandas", "add1", "head7_k2"):
        rec["sample"] = {"cell": case, "npartitions": n}
    return rec
