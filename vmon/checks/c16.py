"""C16 - collections survive serialization to another process.

Events: pickle.dumps(x) of a collection (as built / simplified / optimize() / lower_completely()) loaded in a
FRESH interpreter (one receiver process per pickle, so no earlier pickle can warm the receiver's caches):
load failure, or name / schema / divisions / npartitions / computed result differing from the origin's.
Oracle: the originating process's own observations, shipped alongside the pickle.
"""
import os
import pickle
import subprocess
import sys
import json

import dask

from vmon import VERIF_DIR, monitors as M
from vmon import progcase, programs
from vmon.checks.c14 import _divs
from vmon.execs import concat_parts, exec_ref
from vmon.util import derive_rng, shash

LEVEL = "exploration"
MANIFEST = {
    "text": "Seeded random programs (biased to plans with state outside operands: set_index/sort_values quantile divisions, repartition by size, parquet dataset info) are pickled in four forms (as built, simplified, optimize(), lower_completely()) from sources {from_pandas, from_map, from_delayed, parquet with both readers, persisted}; each pickle is loaded by a fresh receiver interpreter with empty caches, which compares name, declared schema, divisions, npartitions and the computed result with the originating process's own observations. Scripted sources whose unsorted index from_pandas itself sorts are included.",
    "note": "One receiver process per pickle (about 1.5 s each). Functions referenced by the workload (map_partitions helpers) are importable in the receiver, as user code would be. Sampled programs.",
    "technique": "runtime monitoring: cross-process differential observation (origin vs fresh receiver) of pickled collections",
    "design_ref": "DESIGN.md section 4, C16",
}
RULE = ("programs from the typed generator ('planner_state' and default profiles) x form in {logical, simplified, optimized, lowered}; one fresh receiver per pickle; "
        "non-trivial = the pickled plan contains at least one non-source expression; distinct by (program, form)")
ASSUMPTIONS = ["cloudpickle-free: plain pickle as used by dask for collections", "receiver has PYTHONPATH to the same user modules"]
CONFIG = {
    "quick": {"budget_s": 50, "programs": 110, "case_timeout_s": 600},
    "thorough": {"budget_s": 600, "programs": 250, "case_timeout_s": 240},
}
FORMS = ["logical", "simplified", "optimized", "lowered"]


def floors(tier):
    return {"cases": 40, "pickles_received": 90, "nontrivial": 80, "form_optimized": 20, "form_lowered": 20, "plans_with_setindex_or_sort": 6}


def cases(tier, seed):
    yield {"canary": "optimized-set-index"}
    # canary of the listed finding: a persisted frame whose partitions are views of the user's frame is renamed by a pickle round trip
    yield {"prog": {"tables": [{"seed": 5, "n": 24, "index": "range", "ridbase": 0, "cols": ["i", "g", "rid"]}], "sources": [{"table": 0, "layout": {"kind": "from_pandas", "npartitions": 3, "sort": True}}],
                    "steps": [{"op": "persist", "in": [0], "p": {}}], "out": 1}, "forms": ["logical"], "shuffle": "tasks"}
    # planner state computed by sampling (quantile divisions): large enough partitions that dask really samples
    for i, (col, np_, kind) in enumerate([("g", 4, "set_index"), ("k", 3, "set_index"), ("f2", 5, "sort_values"), ("g", 6, "sort_values")]):
        yield {"big": [col, np_, kind, i], "forms": FORMS}
    # sources the random layouts never produce: from_pandas has to SORT an unsorted index itself (sort=True)
    for i, (steps, out) in enumerate(SCRIPTED_STEPS):
        for np_ in (1, 3):
            yield {"prog": {"tables": [{"seed": 31 + i, "n": 24, "index": "unsorted", "ridbase": 0}], "sources": [{"table": 0, "layout": {"kind": "from_pandas", "npartitions": np_, "sort": True}}],
                            "steps": steps, "out": out}, "forms": FORMS}
    profiles = ["planner_state", "default", "planner_state", "structure", "projection", "blockwise"]
    for i in range(CONFIG[tier]["programs"]):
        yield {"gen": [seed, i], "profile": profiles[i % len(profiles)]}


SCRIPTED_STEPS = [
    ([{"op": "proj_list", "in": [0], "p": {"cols": ["g", "rid"]}}], 1),
    ([{"op": "abs", "in": [0], "p": {"cols": ["g", "u"]}}], 1),
    ([{"op": "proj_list", "in": [0], "p": {"cols": ["k", "g", "rid"]}}, {"op": "abs", "in": [1], "p": {"cols": ["g", "rid"]}}], 2),
    ([{"op": "set_index", "in": [0], "p": {"col": "u", "drop": True}}], 1),
    ([{"op": "reset_index", "in": [0], "p": {}}], 1),
]


def canary_prog():
    return {"tables": [{"seed": 5, "n": 24, "index": "range", "ridbase": 0}], "sources": [{"table": 0, "layout": {"kind": "from_pandas", "npartitions": 3, "sort": True}}],
            "steps": [{"op": "set_index", "in": [0], "p": {"col": "u", "drop": True}}], "out": 1}


def run_case(case):
    if case.get("canary"):
        prog = canary_prog()
    elif case.get("big"):
        col, np_, kind, i = case["big"]
        prog = {"tables": [{"seed": 77 + i, "n": 160, "index": "range", "ridbase": 0}], "sources": [{"table": 0, "layout": {"kind": "from_pandas", "npartitions": np_, "sort": True}}],
                "steps": [{"op": "set_index", "in": [0], "p": {"col": col if col != "f2" else "g", "drop": True}} if kind == "set_index" else
                          {"op": "sort_values", "in": [0], "p": {"by": [col if col != "f2" else "g", "rid"], "ascending": True}}], "out": 1}
    else:
        prog = case["prog"] if "prog" in case else progcase.gen_prog(("C16",) + tuple(case["gen"]), profile=case.get("profile", "default"), layout_kw=None)
    counters = {}
    rec = {"status": "ok", "counters": counters, "nt": []}

    def bump(k, v=1):
        counters[k] = counters.get(k, 0) + v

    b = progcase.Built(prog).build_sources()
    rng = derive_rng("C16", shash(prog))
    method = case.get("shuffle") or rng.choice(["tasks", "tasks", "disk"])
    try:
        b.eval_pd()
        b.eval_dx(method)
    except Exception:
        return {"status": "refused", "counters": {"build_refused": 1}}
    flags = {"order": b.out_pd.order, "index": b.out_pd.index}
    q = b.out_dx
    forms = case.get("forms") or (FORMS if (case.get("canary") or case.get("big")) else rng.sample(FORMS, 2))
    scratch = os.environ.get("VMON_SCRATCH", "/tmp")
    viol = None
    from dask_expr import new_collection

    with dask.config.set({"dataframe.shuffle.method": method}):
        try:
            ref = concat_parts(exec_ref(q.optimize().expr))
        except Exception:
            return {"status": "undecided", "counters": {"origin_compute_raises": 1}}
        classes = progcase.plan_classes(q.expr)
        if {"SetIndex", "SortValues"} & set(classes):
            bump("plans_with_setindex_or_sort")
        for form in forms:
            try:
                if form == "logical":
                    coll = q
                elif form == "simplified":
                    coll = new_collection(q.expr.simplify())
                elif form == "optimized":
                    coll = q.optimize()
                else:
                    coll = new_collection(q.expr.lower_completely())
                e = coll.expr
                origin = {"name": e._name, "npartitions": e.npartitions, "divisions": repr(_divs(e)), "meta": e._meta, "result": ref}
                blob = pickle.dumps(coll)
            except Exception as ex:
                viol = dict(progcase.exc_info(ex), oracle="pickle_dumps", form=form)
                break
            path = os.path.join(scratch, f"c16-{os.getpid()}-{shash(prog)}-{form}.pkl")
            with open(path, "wb") as fh:
                pickle.dump({"pickle": blob, "origin": origin, "flags": flags, "shuffle": method, "form": form}, fh)
            env = dict(os.environ)
            env["PYTHONPATH"] = VERIF_DIR + (os.pathsep + env["PYTHONPATH"] if env.get("PYTHONPATH") else "")
            # "another process" means another hash seed as well (the worker runs with PYTHONHASHSEED=0)
            env["PYTHONHASHSEED"] = ["random", "1", "2", "random"][len(path) % 4]
            try:
                r = subprocess.run([sys.executable, "-W", "ignore", "-m", "vmon.receiver", path], env=env, capture_output=True, text=True, timeout=400)
            except subprocess.TimeoutExpired:
                bump("receiver_timeout")
                continue
            finally:
                try:
                    os.remove(path)
                except OSError:
                    pass
            line = next((ln for ln in r.stdout.splitlines() if ln.startswith("RECEIVER ")), None)
            if line is None:
                bump("receiver_no_output")
                rec.setdefault("sets", {}).setdefault("receiver_errors", []).append((r.stderr or "")[-200:])
                continue
            out = json.loads(line[len("RECEIVER "):])
            bump("pickles_received")
            bump(f"form_{form}")
            if len(prog["steps"]) >= 1:
                rec["nt"].append(f"{shash(prog)}:{form}")
            if not out.get("ok"):
                out.pop("ok", None)
                viol = dict(out, oracle="fresh_process_receiver", form=form)
                break
    if viol:
        viol["ops"] = programs.program_ops(prog)
        viol["shuffle"] = method
        viol["src"] = programs.program_source(prog)
        viol["classes"] = progcase.plan_classes(q.expr)
        rec["status"] = "violation"
        rec["viol"] = viol
        rec["case"] = {"prog": prog, "shuffle": method, "forms": [viol["form"]]}
    if case.get("gen") and case["gen"][1] in (0, 3):
        rec["sample"] = {"program": programs.program_source(prog), "forms": forms, "shuffle": method}
    return rec
