"""C17 - materialization boundaries are transparent.

Events: final result / schema / divisions of tail(cut(head)) for a program split at every step, for cut in
{persist(), to_delayed()->from_delayed(meta, divisions), to_legacy_dataframe()->from_legacy_dataframe}.
Oracle: the uncut program in the same process.
"""
import dask
import pandas as pd

from vmon import monitors as M
from vmon import progcase, programs
from vmon.checks.c14 import _divs, _schema_diff
from vmon.compare import compare
from vmon.execs import concat_parts, exec_ref
from vmon.util import derive_rng, shash

LEVEL = "exploration"
MANIFEST = {
    "text": "For seeded random programs every value on the path to the result is used as a cut point with each of three cut kinds (persist, to_delayed/from_delayed with meta and divisions, legacy round trip); the remaining operations are re-applied to the re-imported collection on the real code and the final result, declared schema and divisions are compared with the uncut program. The graph of the re-imported plan is audited (key aliasing of FromGraph) and the node kind at the cut is recorded (frame, series, index, scalar, unknown divisions, partition-filtered). 60 chain cases cut directly on partition selections, head / tail / loc, sorted set_index and from_map sources.",
    "note": "The uncut optimized program is the oracle. from_delayed receives the cut collection's own meta and divisions, so equal divisions are required; sampled programs.",
    "technique": "runtime monitoring: differential execution cut vs uncut at every intermediate value, with M-graph on the re-imported plan",
    "design_ref": "DESIGN.md section 4, C17",
}
RULE = ("programs from the typed generator; every ancestor of the result x {persist, delayed, legacy}; non-trivial = cut strictly inside the program "
        "(at least one operation re-applied after the cut) and the tail's optimization fired at least one rule; distinct by (program, cut point, kind)")
ASSUMPTIONS = ["persist(scheduler='sync')", "to_delayed() documents that it optimizes first"]
CONFIG = {
    "quick": {"budget_s": 50, "programs": 500, "case_timeout_s": 90},
    "thorough": {"budget_s": 540, "programs": 2500, "case_timeout_s": 180},
}
KINDS = ["persist", "delayed", "legacy"]


def floors(tier):
    return {"cases": 200, "cuts_compared": 1200, "nontrivial": 500, "set:cut_node_kinds": 3, "cut_persist": 300, "cut_delayed": 250, "cut_legacy": 250,
            "graph_audits": 200}


def chain_targets():
    """name -> (builder of the collection to cut, list of tail functions): cuts placed directly on values the random programs never
    produce (partition selections, head / tail / loc, sorted set_index, file sources with selections), followed by short tails"""
    import numpy as np
    import pandas as pd

    import dask_expr as dx

    n = 48
    pdf = pd.DataFrame({"a": np.arange(n) % 5, "b": np.arange(n) * 1.5, "c": (np.arange(n) * 7) % n, "rid": np.arange(n)}, index=pd.Index(np.arange(n) + 100, name="ix"))
    d = lambda k=6: dx.from_pandas(pdf, npartitions=k)  # noqa: E731
    srcs = {
        "partitions_list": lambda: d().partitions[[1, 4]],
        "partitions_one": lambda: d().partitions[2],
        "partitions_proj": lambda: d()[["a", "b"]].partitions[[0, 3, 5]],
        "partitions_reversed_same_len": lambda: d(4).partitions[[3, 2, 1, 0]],
        "partitions_elemwise": lambda: (d()[["a", "b"]] + 1).partitions[[2, 3]],
        "head_k2": lambda: d().head(10, npartitions=2, compute=False),
        "tail": lambda: d().tail(5, compute=False),
        "loc_slice": lambda: d().loc[110:130],
        "set_index_sorted": lambda: d().set_index("rid", sorted=True),
        "set_index_sorted_parts": lambda: d().set_index("rid", sorted=True).partitions[[1, 2]],
        "repartition_div": lambda: d().repartition(divisions=[100, 120, 147]),
        "from_map_parts": lambda: dx.from_map(lambda i: pdf.iloc[i * 12:(i + 1) * 12], range(4), divisions=(100, 112, 124, 136, 147)).partitions[[1, 3]],
        "series_parts": lambda: d().b.partitions[[0, 5]],
        "index_parts": lambda: d().index.partitions[[1, 2]].to_series(),
        "filter_parts": lambda: d()[d().a > 1].partitions[[0, 2]],
    }
    tails = {
        "identity": lambda v: v,
        "add": lambda v: v + 1 if v.ndim == 1 or "a" not in v.columns else v.assign(z=v.a + 1),
        "sum": lambda v: (v.sum() if v.ndim == 1 else v[[c for c in v.columns if c in ("a", "b", "c", "rid")]].sum()).to_frame("s"),
        "filter": lambda v: v[v > v.min()] if v.ndim == 1 else v[v[v.columns[0]] > 0],
    }
    return srcs, tails


def cases(tier, seed):
    srcs, tails = chain_targets()
    for sname in srcs:
        for tname in tails:
            yield {"chain": [sname, tname]}
    profiles = ["default", "blockwise", "projection", "filter", "structure", "default"]
    for i in range(CONFIG[tier]["programs"]):
        yield {"gen": [seed, i], "profile": profiles[i % len(profiles)]}


def setup_worker(tier, seed):
    M.RULES.install()


def _has_nonstring_object_column(v):
    cols = [v[c] for c in v.columns] if isinstance(v, pd.DataFrame) else ([v] if isinstance(v, pd.Series) else [])
    if isinstance(v, (pd.DataFrame, pd.Series)):
        # the import converts an object INDEX (e.g. timestamps mixed with ints after a concat) to strings just like a column
        cols += [v.index.get_level_values(i).to_series() for i in range(v.index.nlevels)]
    for s in cols:
        if s.dtype == object and any(not isinstance(x, str) for x in s.dropna().tolist()):
            return True
    return False


def ancestors(prog, out):
    ns = len(prog["sources"])
    seen, st = set(), [out]
    while st:
        i = st.pop()
        if i in seen:
            continue
        seen.add(i)
        if i >= ns:
            st.extend(prog["steps"][i - ns]["in"])
    return sorted(seen)


def cut(v, kind):
    import dask_expr as dx

    if kind == "persist":
        return v.persist(scheduler="sync")
    if kind == "delayed":
        parts = v.to_delayed()
        o = v.optimize()
        divs = o.divisions if o.known_divisions else None
        # verify_meta=False: data-dependent promotions (bool -> object after an outer join) are pandas' own, not a cut artefact
        kw = {"meta": v._meta, "verify_meta": False}
        if divs is not None:
            kw["divisions"] = divs
        return dx.from_delayed(parts, **kw)
    if kind == "legacy":
        return dx.from_legacy_dataframe(v.to_legacy_dataframe())
    raise ValueError(kind)


def _all_unknown(d):
    return all(x is None for x in d)


def _weaker_like_logical(cd, logical_divs):
    return _all_unknown(cd) and _all_unknown(logical_divs)


def run_chain(case):
    """cut placed directly on a targeted value; the continuation on the cut must give the uncut result, schema and divisions"""
    from vmon.checks.c14 import _schema_diff

    srcs, tails = chain_targets()
    sname, tname = case["chain"]
    counters, sets = {"chain_cases": 1}, {"cut_node_kinds": []}
    rec = {"status": "ok", "counters": counters, "sets": sets, "nt": []}
    viol = None
    try:
        v = srcs[sname]()
        q = tails[tname](v)
        with M.Guard():
            o = q.optimize()
            ref = concat_parts(exec_ref(o.expr))
        ref_meta, ref_divs, logical_divs = o._meta, _divs(o.expr), _divs(q.expr)
    except Exception:
        return {"status": "undecided", "counters": {"uncut_raises": 1}}
    for kind in KINDS:
        try:
            c = cut(srcs[sname](), kind)
        except Exception as ex:
            if kind == "legacy" or kind == "delayed":
                counters["cut_refused"] = counters.get("cut_refused", 0) + 1  # legacy collections need sorted divisions
                continue
            viol = dict(progcase.exc_info(ex), oracle="cut_runs", cut=[sname, kind])
            break
        try:
            qc = tails[tname](c)
            oc = qc.optimize()
            with M.Guard():
                got = concat_parts(exec_ref(oc.expr))
        except Exception as ex:
            viol = dict(progcase.exc_info(ex), oracle="cut_runs", cut=[sname, kind])
            break
        counters["cuts_compared"] = counters.get("cuts_compared", 0) + 1
        counters[f"cut_{kind}"] = counters.get(f"cut_{kind}", 0) + 1
        rec["nt"].append(f"chain:{sname}:{tname}:{kind}")
        d = compare(got, ref, order=True, index=True, dtypes=True)
        if d:
            viol = dict(d, oracle="cut_vs_uncut", cut=[sname, kind])
            break
        sd = _schema_diff(oc._meta, ref_meta)
        if sd:
            viol = dict(sd, oracle="cut_schema", cut=[sname, kind])
            break
        cd = _divs(oc.expr)
        if cd != ref_divs and not (_all_unknown(cd) and (_all_unknown(ref_divs) or _all_unknown(logical_divs))) and not (kind == "legacy" and not oc.known_divisions):
            viol = {"oracle": "cut_divisions", "symptom": "divisions", "got": repr(cd)[:200], "exp": repr(ref_divs)[:200], "cut": [sname, kind]}
            break
        # the cut value itself reports what the uncut value reports
        try:
            cv, uv = cut(srcs[sname](), kind), srcs[sname]()
            if kind == "persist" and (_divs(cv.expr) != _divs(uv.optimize().expr) and _divs(cv.expr) != _divs(uv.expr) or cv.npartitions != len(_divs(cv.expr)) - 1):
                viol = {"oracle": "cut_divisions", "symptom": "divisions", "got": repr(_divs(cv.expr))[:200], "exp": repr(_divs(uv.expr))[:200], "cut": [sname, kind], "at": "cut-value"}
                break
        except Exception as ex:
            viol = dict(progcase.exc_info(ex), oracle="cut_runs", cut=[sname, kind])
            break
    if viol:
        viol["ops"] = [sname, tname]
        viol["src"] = [f"chain: cut({sname}) then {tname}"]
        rec["status"] = "violation"
        rec["viol"] = viol
        rec["case"] = {"chain": [sname, tname]}
    return rec


def run_case(case):
    if "chain" in case:
        return run_chain(case)
    prog = case["prog"] if "prog" in case else progcase.gen_prog(("C17",) + tuple(case["gen"]), profile=case.get("profile", "default"), exclude_tags=("cut",))
    counters, sets = {}, {"cut_node_kinds": []}
    rec = {"status": "ok", "counters": counters, "sets": sets, "nt": []}

    def bump(k, v=1):
        counters[k] = counters.get(k, 0) + v

    b = progcase.Built(prog).build_sources()
    method = case.get("shuffle") or derive_rng("C17", shash(prog)).choice(["tasks", "tasks", "disk"])
    try:
        b.eval_pd()
        b.eval_dx(method)
    except Exception:
        return {"status": "refused", "counters": {"build_refused": 1}}
    flags = {"order": b.out_pd.order, "index": b.out_pd.index}
    q = b.out_dx
    out = prog["out"]
    ns = len(prog["sources"])
    viol = None
    with dask.config.set({"dataframe.shuffle.method": method}):
        try:
            with M.Guard():
                o = q.optimize()
                ref = concat_parts(exec_ref(o.expr))
                ref_meta, ref_divs = o._meta, _divs(o.expr)
                logical_divs = _divs(q.expr)
        except Exception:
            return {"status": "undecided", "counters": {"uncut_raises": 1}}
        todo = case.get("cuts") or [(j, k) for j in ancestors(prog, out) for k in KINDS]
        for j, kind in todo:
            vj = b.dx_vals[j]
            if not hasattr(vj, "expr"):
                continue
            nk = "scalar" if not isinstance(vj._meta, (pd.DataFrame, pd.Series, pd.Index)) else type(vj._meta).__name__.lower().replace("dataframe", "frame")
            if kind != "persist" and nk not in ("frame", "series"):
                continue
            if nk in ("frame", "series") and not vj.known_divisions:
                nk += "-unknown-divisions"
            if kind != "persist" and _has_nonstring_object_column(b.pd_vals[j].pd):
                # dask treats every object column as strings when it (re)imports data (from_pandas, from_map, from_delayed):
                # an object column holding e.g. bools is converted by the import, by documented design of convert-string
                bump("cut_skipped_nonstring_object_column")
                continue
            try:
                with M.Guard():
                    c = cut(vj, kind)
            except Exception as ex:
                bump("cut_refused")
                sets.setdefault("cut_refusals", []).append(f"{kind}:{nk}:{type(ex).__name__}")
                continue
            # re-apply the remaining steps on top of the cut value
            vals = list(b.dx_vals[: max(j + 1, ns)])  # all sources stay, also when an earlier source is the cut
            vals[j] = c
            try:
                for si in range(max(j + 1, ns), ns + len(prog["steps"])):
                    st = prog["steps"][si - ns]
                    vals.append(programs.OPS[st["op"]].apply("dx", [vals[i] for i in st["in"]], st["p"]))
                qc = vals[out]
            except Exception as ex:
                viol = dict(progcase.exc_info(ex), oracle="tail_builds_on_cut", cut=[j, kind], node=nk)
                break
            M.RULES.reset()
            try:
                oc = qc.optimize()
                fired = sum(M.RULES.snapshot().values())
                with M.Guard():
                    got = concat_parts(exec_ref(oc.expr))
            except NotImplementedError as ex:
                if "overlapping window size" in str(ex):
                    # documented refusal of shift/diff/rolling over a partition shorter than the window: the cut fixes the
                    # source's physical partitions, the uncut plan only escaped it through fused multi-file parquet reads
                    bump("cut_refused_overlap_window")
                    continue
                viol = dict(progcase.exc_info(ex), oracle="cut_runs", cut=[j, kind], node=nk)
                break
            except Exception as ex:
                viol = dict(progcase.exc_info(ex), oracle="cut_runs", cut=[j, kind], node=nk)
                break
            bump("cuts_compared")
            bump(f"cut_{kind}")
            sets["cut_node_kinds"].append(nk)
            if j != out and fired:
                rec["nt"].append(f"{shash(prog)}:{j}:{kind}")
            d = compare(got, ref, order=flags["order"], index=flags["index"], dtypes=True)
            if d:
                viol = dict(d, oracle="cut_vs_uncut", cut=[j, kind], node=nk)
                break
            sd = _schema_diff(oc._meta, ref_meta)
            if sd:
                viol = dict(sd, oracle="cut_schema", cut=[j, kind], node=nk)
                break
            # quantile divisions of a set_index / sort_values AFTER the cut are sampled from its input partitioning, which
            # the cut legitimately changes (it blocks push-downs below the sort): divisions are then not comparable
            # ... and the optimizer may push filters/projections below a sort of the uncut program, which changes the sample too
            sort_after_cut = any("sort" in programs.OPS[st_["op"]].tags for st_ in prog["steps"])
            fused_read = {"FusedIO", "FusedParquetIO"} & (set(progcase.plan_classes(o.expr)) | set(progcase.plan_classes(oc.expr)))
            if sort_after_cut:
                bump("divisions_not_comparable_sort_after_cut")
            elif fused_read:
                # the tune step merges the files of a column-projected parquet read into fewer partitions; how many depends on
                # the columns the rest of the plan needs, which a cut changes: only the covered range is comparable
                cd = _divs(oc.expr)
                bump("divisions_fused_read_range_only")
                if ((cd[0] is None) != (ref_divs[0] is None) and kind != "legacy" and not _weaker_like_logical(cd, logical_divs)) or (cd[0] is not None and ref_divs[0] is not None and (cd[0], cd[-1]) != (ref_divs[0], ref_divs[-1])):
                    viol = {"oracle": "cut_divisions", "symptom": "divisions-range", "got": repr(cd)[:200], "exp": repr(ref_divs)[:200], "cut": [j, kind], "node": nk}
                    break
            elif _all_unknown(_divs(oc.expr)) and (_all_unknown(ref_divs) or _weaker_like_logical(_divs(oc.expr), logical_divs)):
                # unknown on both sides (the number of partitions is layout, which persist()'s own tune step may change), or the
                # cut reports what the query as written (its logical plan) reports: the uncut optimized plan only knows more
                # because a push-down removed the operation that loses the divisions, and the cut blocks that push-down
                bump("divisions_unknown_both_or_like_logical")
            elif _divs(oc.expr) != ref_divs and kind != "legacy" or (kind == "legacy" and _divs(oc.expr) != ref_divs and oc.known_divisions and ref_divs[0] is not None):
                viol = {"oracle": "cut_divisions", "symptom": "divisions", "got": repr(_divs(oc.expr))[:200], "exp": repr(ref_divs)[:200], "cut": [j, kind], "node": nk}
                break
            if (j + len(kind)) % 4 == 0:
                with M.Guard():
                    probs, st_ = M.audit_graph(oc.expr.lower_completely())
                bump("graph_audits")
                if probs:
                    viol = dict(probs[0], oracle="cut_graph", cut=[j, kind], node=nk)
                    break
    if viol:
        viol["ops"] = programs.program_ops(prog)
        viol["shuffle"] = method
        viol["src"] = programs.program_source(prog)
        rec["status"] = "violation"
        rec["viol"] = viol
        rec["case"] = {"prog": prog, "shuffle": method, "cuts": [viol["cut"]]}
    if case.get("gen") and case["gen"][1] in (0, 5):
        rec["sample"] = {"program": programs.program_source(prog), "cut_points": ancestors(prog, out), "kinds": KINDS}
    return rec
