"""C07 - declared schema matches the computed data."""
from vmon import planaudit
from vmon.checks.c06 import TARGET_NAMES

LEVEL = "exploration"
MANIFEST = {
    "text": "Declared-vs-computed schema audit (M-plan) of every collection a user can hold: for every value L of seeded random programs (all column dtype mixes incl. string/categorical/datetime/bool, layouts with empty partitions) and targeted queries, and every optimizer stage S, the container type, column labels and order, series/index names and dtype kinds declared by optimize_until(L, S) are compared with every computed partition, and the declared schema at every stage is compared with the logical collection's. ~120 keyword-surface targets (every join lowering x indicator / suffixes / index keys, split_out reductions on unnamed Series, reset_index of MultiIndex, sort_values(ignore_index), resample, merge_asof, concat of Series, ...) are audited at every stage.",
    "note": "dtype comparison is by kind; int/bool -> float/object is accepted only when the partition really contains missing values; empty partitions are not judged for dtype. Only user-holdable collections are audited.",
    "technique": "runtime monitoring: M-plan declared-vs-computed schema audit of every partition at every plan stage",
    "design_ref": "DESIGN.md section 4, C07",
}
RULE = ("audited set = {optimize_until(L,S)} for every program value L and stage S + targeted queries; non-trivial = frame/series collection audited; "
        "distinct by (program, value, stage)")
ASSUMPTIONS = ["dtype kind classes: int, float, bool, datetime, timedelta, string/object, categorical"]
CONFIG = {
    "quick": {"budget_s": 55, "programs": 500, "case_timeout_s": 90},
    "thorough": {"budget_s": 600, "programs": 2500, "case_timeout_s": 180},
}
TIER = {"t": "quick"}


def floors(tier):
    return {"cases": 250, "audits": 3000, "schema_audits": 3000, "nontrivial": 2000, "declared_schema_stage_comparisons": 1500, "set:root_classes": 50}


def cases(tier, seed):
    for name in TARGET_NAMES:
        yield {"targeted": name}
    for name in planaudit.sk_names():
        yield {"targeted": name}
    profiles = ["default", "projection", "default", "structure", "blockwise", "filter"]
    for i in range(CONFIG[tier]["programs"]):
        yield {"gen": [seed, i], "profile": profiles[i % len(profiles)]}


def setup_worker(tier, seed):
    TIER["t"] = tier


def run_case(case):
    return planaudit.run(case, "schema", "C07", TIER["t"])
