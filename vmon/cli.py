"""Driver: shard cases over worker processes, aggregate monitor observations, confirm candidate
violations alone in a fresh process, classify against known findings, write evidence, give the
three-valued verdict (exit 0 held / 1 violated / 2 inconclusive)."""
import argparse
import importlib
import json
import os
import shutil
import subprocess
import sys
import tempfile
import time

from vmon import REPO_DIR, VERIF_DIR
from vmon import findings as F

MAX_CONFIRM = 12  # distinct mechanisms re-run alone per check run


def load_check(cid):
    return importlib.import_module(f"vmon.checks.{cid.lower()}")


def main(argv=None):
    ap = argparse.ArgumentParser()
    ap.add_argument("check")
    ap.add_argument("--tier", default=os.environ.get("VERIF_TIER", "quick"))
    ap.add_argument("--seed", type=int, default=int(os.environ.get("VERIF_SEED", "0") or 0))
    ap.add_argument("--jobs", type=int, default=int(os.environ.get("VERIF_JOBS", "0") or 0))
    ap.add_argument("--replay", default=None)
    ap.add_argument("--budget", type=float, default=None, help="override per-worker time budget (s)")
    ap.add_argument("--keep", action="store_true")
    a = ap.parse_args(argv)
    cid = a.check.upper()
    if a.tier not in ("quick", "thorough"):
        a.tier = "quick"
    if a.replay:
        return replay(cid, a.replay)
    return run_check(cid, a.tier, a.seed, a.jobs or min(16, os.cpu_count() or 4), a.budget, a.keep)


def worker_cmd(cid, tier, seed, shard, nshards, out, budget, replay=None):
    cmd = [sys.executable, "-W", "ignore", "-m", "vmon.worker", "--check", cid, "--tier", tier, "--seed", str(seed),
           "--shard", str(shard), "--nshards", str(nshards), "--out", out, "--budget", str(budget)]
    if replay:
        cmd += ["--replay", replay]
    return cmd


def worker_env(mod):
    env = dict(os.environ)
    env["PYTHONPATH"] = VERIF_DIR + (os.pathsep + env["PYTHONPATH"] if env.get("PYTHONPATH") else "")
    env.setdefault("PYTHONHASHSEED", "0")
    env["PYTHONDONTWRITEBYTECODE"] = "1"
    env["OMP_NUM_THREADS"] = "1"
    env["OPENBLAS_NUM_THREADS"] = "1"
    env["MKL_NUM_THREADS"] = "1"
    env["ARROW_DEFAULT_MEMORY_POOL"] = "system"
    return env


def run_check(cid, tier, seed, jobs, budget_override=None, keep=False):
    t0 = time.time()
    mod = load_check(cid)
    conf = mod.CONFIG[tier]
    # budget_s is the nominal CPU time per worker the tier was sized for; the workers only stop at 2.5x that (a backstop: the
    # cases explored are fixed by the case list, so the reach does not depend on machine load)
    budget = budget_override or conf.get("budget_s", 60) * 2.5
    nshards = min(jobs, conf.get("max_workers", 16))
    scratch = tempfile.mkdtemp(prefix=f"vmon-{cid}-")
    procs = []
    env = worker_env(mod)
    env["VMON_SCRATCH"] = scratch
    for s in range(nshards):
        out = os.path.join(scratch, f"w{s}.jsonl")
        log = open(os.path.join(scratch, f"w{s}.log"), "w")
        p = subprocess.Popen(worker_cmd(cid, tier, seed, s, nshards, out, budget), env=env, stdout=log, stderr=subprocess.STDOUT, cwd=scratch)
        procs.append((p, out, log))
    watchdog = budget * 8 + 300
    dead = []
    for p, out, log in procs:
        try:
            p.wait(timeout=max(5, watchdog - (time.time() - t0)))
        except subprocess.TimeoutExpired:
            p.kill()
            dead.append("watchdog")
        log.close()
        if p.returncode not in (0, None):
            dead.append(f"rc={p.returncode}")
    agg = Agg()
    for s, (p, out, log) in enumerate(procs):
        if os.path.exists(out):
            with open(out) as fh:
                for line in fh:
                    try:
                        agg.add(json.loads(line))
                    except Exception:
                        agg.counters["_corrupt_lines"] = agg.counters.get("_corrupt_lines", 0) + 1
    worker_logs = ""
    if dead:
        for s in range(nshards):
            lp = os.path.join(scratch, f"w{s}.log")
            if os.path.exists(lp):
                txt = open(lp).read()[-1500:]
                if txt.strip():
                    worker_logs += f"--- worker {s} ---\n{txt}\n"
    # ---- confirm candidate violations alone, classify -------------------------------------------
    known = F.load_known()
    os.makedirs(os.path.join(VERIF_DIR, "replays", cid), exist_ok=True)
    known_hit = {}
    groups = {}

    def save_replay(rec, tag):
        path = os.path.join(VERIF_DIR, "replays", cid, f"{cid}-{tier}-s{seed}-{tag}.json")
        with open(path, "w") as fh:
            json.dump({"property": cid, "tier": tier, "seed": seed, "case": rec["case"], "viol": rec["viol"]}, fh, indent=1, sort_keys=True)
        return path

    # every candidate is matched against the listed findings individually (so a different violation of the same
    # property is never hidden behind a listed one); the unlisted ones are grouped by coarse mechanism and a
    # representative of each group is re-run alone in a fresh process before it is reported.
    for rec in agg.violations:
        v = rec["viol"]
        kf = F.match_known(known, cid, v)
        if kf is not None:
            ent = known_hit.setdefault(kf["key"], {"kf": kf, "count": 0, "path": None})
            ent["count"] += 1
            if ent["path"] is None:
                ent["path"] = save_replay(rec, "known-" + F.short(kf["key"]))
            continue
        mk = F.mech_key(v)
        g = groups.setdefault(mk, {"count": 0, "rec": rec})
        g["count"] += 1
    n_viol = 0
    lines = []
    for n, (mk, ent) in enumerate(groups.items()):
        rec = ent["rec"]
        path = save_replay(rec, F.short(mk + json.dumps(rec["viol"].get("ops", ""))))
        v, how = rec["viol"], "not re-run (cap)"
        if n < MAX_CONFIRM:
            rr = run_replay_subprocess(cid, path, env, scratch)
            if rr is None:
                how = "did not reproduce alone (history-dependent?)"
            else:
                v, how = rr, "reproduced alone"
                kf = F.match_known(known, cid, v)
                if kf is not None:
                    e2 = known_hit.setdefault(kf["key"], {"kf": kf, "count": 0, "path": path})
                    e2["count"] += ent["count"]
                    continue
        n_viol += 1
        lines.append(f"VIOLATION property={cid} replay={path}")
        lines.append(f"  detail: {json.dumps(F.brief(v))[:600]} [{how}; {ent['count']} case(s)]")
    for key, ent in known_hit.items():
        lines.append(f"KNOWN-FINDING: property={cid} {ent['kf']['mechanism']} [{ent['count']} case(s), e.g. {ent['path']}]")
    # canaries for known findings: every listed finding must be seen by the check on the unchanged tree
    missing_known = [k for k in known if k.get("status") == "known" and cid in k["properties"] and k["key"] not in known_hit]
    # ---- reach floors -> inconclusive -----------------------------------------------------------
    inconclusive = []
    if dead:
        inconclusive.append(f"workers died/timeouts: {dead}")
    floors = mod.floors(tier) if hasattr(mod, "floors") else {}
    for name, minimum in floors.items():
        got = agg.metric(name)
        if got < minimum:
            inconclusive.append(f"reach floor {name}: observed {got} < {minimum}")
    if agg.counters.get("harness_error", 0) > max(3, 0.02 * max(1, agg.n)):
        inconclusive.append(f"harness errors: {agg.counters.get('harness_error')} ({agg.error_samples[:3]})")
    wall = time.time() - t0
    ev = mod.evidence(agg, tier) if hasattr(mod, "evidence") else {}
    write_evidence(cid, tier, seed, mod, agg, ev, wall, n_viol, known_hit, inconclusive, floors)
    for ln in lines:
        print(ln)
    for k in missing_known:
        print(f"NOTE: listed known finding '{k['key']}' was not observed in this run (its canary did not fire: fixed, or unreachable)")
    summary = f"{cid} tier={tier} seed={seed} cases={agg.n} nontrivial={len(agg.nontrivial)} violations={n_viol} known={len(known_hit)} wall={wall:.1f}s"
    if not keep:
        shutil.rmtree(scratch, ignore_errors=True)
    if n_viol:
        print("RESULT violated " + summary)
        return 1
    if inconclusive:
        for r in inconclusive:
            print(f"INCONCLUSIVE property={cid} reason={r}")
        if worker_logs:
            print(worker_logs)
        print("RESULT inconclusive " + summary)
        return 2
    print("RESULT held " + summary)
    return 0


def run_replay_subprocess(cid, path, env, scratch):
    """Re-run one case alone in a fresh process. Returns the violation record or None."""
    out = os.path.join(scratch, f"replay-{os.path.basename(path)}.jsonl")
    try:
        subprocess.run(worker_cmd(cid, "quick", 0, 0, 1, out, 300, replay=path), env=env, timeout=600, cwd=scratch,
                       stdout=subprocess.DEVNULL, stderr=subprocess.DEVNULL)
    except subprocess.TimeoutExpired:
        return None
    if not os.path.exists(out):
        return None
    for line in open(out):
        try:
            rec = json.loads(line)
        except Exception:
            continue
        if rec.get("status") == "violation":
            return rec["viol"]
    return None


def replay(cid, path):
    mod = load_check(cid)
    env = worker_env(mod)
    scratch = tempfile.mkdtemp(prefix=f"vmon-{cid}-replay-")
    env["VMON_SCRATCH"] = scratch
    try:
        v = run_replay_subprocess(cid, os.path.abspath(path), env, scratch)
    finally:
        shutil.rmtree(scratch, ignore_errors=True)
    if v is None:
        print(f"replay of {path}: property held (no violation reproduced)")
        return 0
    kf = F.match_known(F.load_known(), cid, v)
    if kf is not None:
        print(f"KNOWN-FINDING: property={cid} {kf['mechanism']}")
        print(json.dumps(F.brief(v))[:1500])
        return 0
    print(f"VIOLATION property={cid} replay={path}")
    print(json.dumps(F.brief(v))[:1500])
    return 1


class Agg:
    def __init__(self):
        self.n = 0
        self.status = {}
        self.counters = {}
        self.sets = {}
        self.maxes = {}
        self.nontrivial = set()
        self.violations = []
        self.samples = []
        self.error_samples = []

    def add(self, rec):
        if rec.get("type") == "meta":
            for k, v in rec.get("counters", {}).items():
                self.counters[k] = self.counters.get(k, 0) + v
            return
        self.n += 1
        st = rec.get("status", "?")
        self.status[st] = self.status.get(st, 0) + 1
        for k, v in rec.get("counters", {}).items():
            self.counters[k] = self.counters.get(k, 0) + v
        for k, v in rec.get("sets", {}).items():
            s = self.sets.setdefault(k, set())
            s.update(_hashable(x) for x in v)
        for k, v in rec.get("maxes", {}).items():
            self.maxes[k] = max(self.maxes.get(k, v), v)
        for nt in rec.get("nt") or []:
            self.nontrivial.add(nt)
        if st == "violation":
            self.violations.append(rec)
        if st == "error":
            self.counters["harness_error"] = self.counters.get("harness_error", 0) + 1
            if len(self.error_samples) < 5:
                self.error_samples.append(rec.get("error", "")[:300])
        if rec.get("sample") is not None and len(self.samples) < 6:
            self.samples.append(rec["sample"])

    def metric(self, name):
        if name == "cases":
            return self.n
        if name == "nontrivial":
            return len(self.nontrivial)
        if name.startswith("set:"):
            return len(self.sets.get(name[4:], ()))
        if name.startswith("status:"):
            return self.status.get(name[7:], 0)
        return self.counters.get(name, 0)


def _hashable(x):
    if isinstance(x, list):
        return tuple(_hashable(y) for y in x)
    return x


def write_evidence(cid, tier, seed, mod, agg, extra, wall, n_viol, known_hit, inconclusive, floors):
    cov = {
        "evaluations": agg.n,
        "distinct_nontrivial": len(agg.nontrivial),
        "rule": mod.RULE,
        "samples": agg.samples[:6] or ["(no sample recorded)"],
        "status_counts": agg.status,
        "monitor_counters": dict(sorted(agg.counters.items())),
        "monitor_distinct": {k: len(v) for k, v in sorted(agg.sets.items())},
        "monitor_max": agg.maxes,
        "reach_floors": {k: {"min": v, "observed": agg.metric(k)} for k, v in floors.items()},
        "known_findings_hit": {k: v["count"] for k, v in known_hit.items()},
        "verdict": "violated" if n_viol else ("inconclusive" if inconclusive else "held"),
        "inconclusive_reasons": inconclusive,
    }
    for k, v in agg.sets.items():
        if len(v) <= 80:
            cov.setdefault("monitor_sets", {})[k] = sorted(map(str, v))
    cov.update(extra or {})
    ev = {
        "property_id": cid,
        "tier": tier,
        "seed": seed,
        "level": getattr(mod, "LEVEL", "exploration"),
        "coverage": cov,
        "assumptions": getattr(mod, "ASSUMPTIONS", []),
        "wall_s": round(wall, 2),
        "violations": n_viol,
    }
    os.makedirs(os.path.join(VERIF_DIR, "evidence"), exist_ok=True)
    tmp = os.path.join(VERIF_DIR, "evidence", f".{cid}.json.tmp")
    with open(tmp, "w") as fh:
        json.dump(ev, fh, indent=1, sort_keys=True, default=str)
    os.replace(tmp, os.path.join(VERIF_DIR, "evidence", f"{cid}.json"))


if __name__ == "__main__":
    sys.exit(main())
