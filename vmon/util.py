"""Small shared helpers: seeded RNG derivation, content fingerprints, json-safe dumping."""
import hashlib
import json
import random
import types

import numpy as np
import pandas as pd


def derive_rng(*parts):
    h = hashlib.sha256(repr(parts).encode()).digest()
    return random.Random(int.from_bytes(h[:8], "big"))


def shash(obj, n=12):
    return hashlib.sha256(repr(obj).encode()).hexdigest()[:n]


# ---------------------------------------------------------------------------
# Content fingerprints.  These deliberately do NOT use dask.base.tokenize (the
# thing under test in C08) and hash *logical* content (values, index, labels,
# names, dtypes, attrs), not pandas' internal block layout.
# ---------------------------------------------------------------------------


def _h():
    return hashlib.blake2b(digest_size=12)


def _arr_bytes(a):
    a = np.asarray(a)
    if a.dtype == object or a.dtype.kind in "OUS":
        return repr([None if _isna(x) else (type(x).__name__, x) for x in a.tolist()]).encode()
    return np.ascontiguousarray(a).tobytes() + str(a.dtype).encode() + str(a.shape).encode()


def _isna(x):
    try:
        r = pd.isna(x)
        return bool(r) if isinstance(r, (bool, np.bool_)) else False
    except Exception:
        return False


def _col_bytes(s):
    """Bytes describing a pandas Series/Index content in a layout-independent way."""
    dt = s.dtype
    h = _h()
    h.update(str(dt).encode())
    try:
        # fast path: pandas' own C-level content hashing (not dask's tokenize), NaN-aware, layout independent
        if isinstance(dt, pd.CategoricalDtype):
            h.update(repr(list(dt.categories)).encode() + str(dt.ordered).encode())
        ser = s if isinstance(s, pd.Series) else pd.Series(s)
        h.update(np.ascontiguousarray(pd.util.hash_pandas_object(ser, index=False, categorize=False).to_numpy()).tobytes())
        return h.digest()
    except Exception:
        pass
    try:
        if isinstance(dt, pd.CategoricalDtype):
            h.update(_arr_bytes(np.asarray(s.cat.codes if hasattr(s, "cat") else s.codes)))
            h.update(repr(list(dt.categories)).encode())
            h.update(str(dt.ordered).encode())
        elif dt.kind in "iufbmM" and not isinstance(dt, pd.api.extensions.ExtensionDtype):
            h.update(_arr_bytes(s.to_numpy()))
        else:
            vals = s.tolist() if hasattr(s, "tolist") else list(s)
            h.update(repr([None if _isna(x) else (type(x).__name__, x) for x in vals]).encode())
    except Exception:
        h.update(repr(list(s)).encode())
    return h.digest()


def fp(x, _depth=0):
    """Fingerprint of a value flowing through a task graph."""
    h = _h()
    if isinstance(x, pd.DataFrame):
        h.update(b"DF")
        h.update(repr([(type(c).__name__, c) for c in x.columns]).encode())
        h.update(repr(x.columns.names).encode())
        h.update(fp(x.index).encode())
        for i in range(x.shape[1]):
            h.update(_col_bytes(x.iloc[:, i]))
        h.update(repr(sorted(x.attrs.items(), key=repr)).encode())
    elif isinstance(x, pd.Series):
        h.update(b"SE")
        h.update(repr((type(x.name).__name__, x.name)).encode())
        h.update(fp(x.index).encode())
        h.update(_col_bytes(x))
        h.update(repr(sorted(x.attrs.items(), key=repr)).encode())
    elif isinstance(x, pd.MultiIndex):
        h.update(b"MI")
        h.update(repr(x.names).encode())
        h.update(repr(x.tolist()).encode())
    elif isinstance(x, pd.Index):
        h.update(b"IX")
        h.update(repr((type(x.name).__name__, x.name)).encode())
        h.update(_col_bytes(x))
    elif isinstance(x, np.ndarray):
        h.update(b"ND")
        h.update(_arr_bytes(x))
    elif isinstance(x, (list, tuple)) and _depth < 6:
        h.update(type(x).__name__.encode())
        for y in x:
            h.update(fp(y, _depth + 1).encode())
    elif isinstance(x, dict) and _depth < 6:
        h.update(b"DI")
        for k in x:
            h.update(repr(k).encode())
            h.update(fp(x[k], _depth + 1).encode())
    elif isinstance(x, (types.FunctionType, types.BuiltinFunctionType, type)):
        h.update(b"FN" + getattr(x, "__qualname__", repr(x)).encode())
    else:
        try:
            h.update(repr(x).encode())
        except Exception:
            h.update(type(x).__name__.encode())
    return h.hexdigest()


def jsonable(x, depth=0):
    """Best-effort conversion of arbitrary python values for evidence / replay files."""
    if depth > 60:
        return repr(x)[:200]
    if x is None or isinstance(x, (bool, int, str)):
        return x
    if isinstance(x, float):
        return x if x == x and abs(x) != float("inf") else repr(x)
    if isinstance(x, (np.integer,)):
        return int(x)
    if isinstance(x, (np.floating,)):
        return jsonable(float(x))
    if isinstance(x, (np.bool_,)):
        return bool(x)
    if isinstance(x, dict):
        return {str(k): jsonable(v, depth + 1) for k, v in x.items()}
    if isinstance(x, (list, tuple, set, frozenset)):
        return [jsonable(v, depth + 1) for v in x]
    if isinstance(x, pd.Timestamp):
        return x.isoformat()
    if isinstance(x, (pd.DataFrame, pd.Series, pd.Index)):
        s = repr(x)
        return s[:1500]
    return repr(x)[:300]


def dumps(x):
    return json.dumps(jsonable(x), sort_keys=True)
