"""Seeded small pandas tables.  Every table has a unique row id `rid`, so result rows identify
the input rows they came from (exactly-once / loss / duplication become multiset comparisons)."""
import numpy as np
import pandas as pd

INDEX_KINDS = ["range", "int_dup", "float", "str", "dt", "unsorted"]


def make_index(kind, n, r):
    if kind == "range":
        return pd.Index(np.arange(n), name=None)
    if kind == "int_dup":
        # sorted ints with duplicates (runs may straddle a partition border)
        return pd.Index(np.sort(r.randint(0, max(2, n // 2), n)), name="ix")
    if kind == "float":
        return pd.Index(np.sort(r.randint(0, 3 * n, n)) / 2.0, name="fx")
    if kind == "str":
        vals = sorted("k%03d" % v for v in r.randint(0, 2 * n, n))
        return pd.Index(vals, name="sx")
    if kind == "dt":
        base = np.datetime64("2000-01-01T00:00:00", "ns")
        offs = np.sort(r.randint(0, 4 * n, n)).astype("timedelta64[h]")
        return pd.DatetimeIndex(base + offs, name="tx")
    if kind == "unsorted":
        return pd.Index(r.permutation(n) % max(2, (2 * n) // 3), name="ux")
    raise ValueError(kind)


def make_table(spec):
    """spec: {seed, n, index, extra(optional int), ridbase(optional), cols(optional list)}"""
    seed = int(spec.get("seed", 0))
    n = int(spec.get("n", 24))
    kind = spec.get("index", "range")
    r = np.random.RandomState(seed % (2**32 - 1))
    ridbase = int(spec.get("ridbase", 0))
    f = r.randint(-6, 12, n) / 2.0
    f[r.rand(n) < 0.2] = np.nan
    s = np.array(r.choice(["ab", "cd", "ef", "gh"], n), dtype=object)
    s[r.rand(n) < 0.15] = None
    data = {
        "i": r.randint(0, 5, n),
        "k": r.randint(0, max(2, n // 3), n),
        "f": f,
        "g": r.randint(0, 40, n) / 4.0,
        "b": r.rand(n) > 0.5,
        "s": pd.array(s, dtype="str") if _has_str_dtype() else s,
        "c": pd.Categorical(r.choice(["x", "y", "z"], n), categories=["x", "y", "z", "w"]),
        "t": pd.to_datetime("2001-01-01") + pd.to_timedelta(r.randint(0, 3 * n, n), unit="D"),
        "u": r.permutation(n) * 3 + 1,  # unique ints, a tie-free sort key
        "rid": np.arange(n) + ridbase,
    }
    cols = spec.get("cols")
    if cols:
        data = {c: data[c] for c in cols}
    df = pd.DataFrame(data, index=make_index(kind, n, r))
    if spec.get("poke"):
        r_, c_, dv = spec["poke"]
        if c_ in df.columns:
            col = df.columns.get_loc(c_)
            if isinstance(dv, str):
                df.iloc[r_ % n, col] = dv
            else:
                df.iloc[r_ % n, col] = df.iloc[r_ % n, col] + dv if not pd.isna(df.iloc[r_ % n, col]) else dv
    if spec.get("poke_index"):
        idx = df.index.tolist()
        last = idx[-1]
        idx[-1] = last + 1 if isinstance(last, (int, float, np.integer, np.floating)) else (last + pd.Timedelta(hours=1) if isinstance(last, pd.Timestamp) else str(last) + "z")
        df.index = pd.Index(idx, name=df.index.name)
    if spec.get("astype"):
        df = df.astype({k: v for k, v in spec["astype"].items() if k in df.columns})
    for j in range(int(spec.get("extra", 0))):
        # extra columns no query mentions (C04 widening); every dtype in turn
        kindj = j % 4
        name = f"zz{j}"
        if kindj == 0:
            df[name] = r.randint(0, 100, n)
        elif kindj == 1:
            df[name] = r.rand(n)
        elif kindj == 2:
            df[name] = pd.array(r.choice(["p", "q"], n), dtype="str") if _has_str_dtype() else r.choice(["p", "q"], n)
        else:
            df[name] = pd.to_datetime("2010-01-01") + pd.to_timedelta(r.randint(0, 9, n), unit="D")
    return df


def _has_str_dtype():
    try:
        pd.array(["a"], dtype="str")
        return True
    except Exception:
        return False


def factorial_table():
    """Full factorial of value classes per column, incl. NaN (3^4 = 81 rows) for C03."""
    xs = [1.0, 3.0, np.nan]
    ys = [0.0, 2.0, np.nan]
    zs = [1.0, 2.0, np.nan]
    ws = ["ab", "cd", None]
    rows = []
    for x in xs:
        for y in ys:
            for z in zs:
                for w in ws:
                    rows.append((x, y, z, w))
    df = pd.DataFrame(rows, columns=["x", "y", "z", "w"])
    if _has_str_dtype():
        df["w"] = df["w"].astype("str")
    df["rid"] = np.arange(len(df))
    # a key for joins: few distinct values so joins are many-to-many
    df["key"] = df["rid"] % 5
    return df
